#!/usr/bin/env python3
"""Regenerates MANIFEST.json from the table below (kept as code so it stays valid and in sync)."""
import json, os, subprocess

HERE = os.path.dirname(os.path.abspath(__file__))
props = [json.loads(l) for l in open(os.path.join(HERE, "properties.jsonl"))]

CHECKS = {
 "C01": dict(cat="model_checking", engine="simcluster", technique="explicit-state DFS (prefix replay, state-hash pruning) of the real controller over all event orders/batches against a reference cluster; trace replay on the in-process virtual cluster",
             text="Every delivery order and batching (bound 2/3) of completion/transfer/fetch events is enumerated for each job x cluster x requested-set configuration, running the real controller, scheduler, runner, Memory and serde; each terminal state's outputs are compared with a sequential interpreter. Exhaustive within the stated family, which unit tests cannot reach because they sample one schedule.",
             note="Cluster behind Bridge is the SimCluster reference model (eager causal execution, exactly-once FIFO-per-origin delivery); jobs <= 5 tasks, <= 4 hosts; conformance of the model is checked by replaying traces on vcluster.", ref="DESIGN.md 2.4, 3 C01"),
 "C02": dict(cat="model_checking", engine="simcluster", technique="explicit-state DFS of the real controller with dispatch monitors; exhaustive arrival-order enumeration for the worker loop",
             text="Dispatch monitors (exactly once, existing free worker, GPU, inputs produced and on host or in transfer) are evaluated on every Bridge call of every explored schedule, including every feasible GPU-worker subset.",
             note="'busy' judged from events delivered to the controller; reference cluster model as in C01.", ref="DESIGN.md 3 C02"),
 "C03": dict(cat="model_checking", engine="simcluster", technique="explicit-state DFS of the real controller; termination/progress monitors on every execution",
             text="All executions are finite (finite event supply), so the complete DFS covers every fair delivery order: each must return with all tasks done, outputs fetched, shutdown called, no idle round, no wait with nothing outstanding, no exception from bookkeeping.",
             note="Assumes exactly-once event delivery (C06); jobs incl. empty, isolated tasks, more/fewer components than hosts, GPU components.", ref="DESIGN.md 3 C03"),
 "C04": dict(cat="model_checking", engine="simcluster", technique="explicit-state DFS of the real controller with purge/transmit/fetch monitors",
             text="Monitors on every purge/transmit/fetch of every explored schedule: consumers done, requested value delivered, no unanswered transfer/fetch from the purged host, source holds the dataset, nothing needed after its purge.",
             note="'unanswered' = reply event not yet delivered to the controller; reference cluster model as in C01.", ref="DESIGN.md 3 C04"),
}

def main():
    checks = []
    for pid, c in CHECKS.items():
        checks.append({
            "property_id": pid,
            "quick_cmd": f"./check {pid} quick",
            "thorough_cmd": f"./check {pid} thorough",
            "evidence_file": f"/verif/evidence/{pid}.json",
            "replay_cmd_template": f"./check {pid} --replay {{path}}",
            "engine": c["engine"],
            "level_claimed": {"category": c["cat"], "text": c["text"], "design_ref": c["ref"]},
            "level_note": c["note"],
            "technique": c["technique"],
        })
    na = [{"property_id": p["id"], "reason": "check not built yet in this snapshot (under construction; see DESIGN.md 3b for the order) - model checking applies and is planned"}
          for p in props if p["id"] not in CHECKS]
    hooks_commits = []
    m = {
        "version": 1,
        "setup_cmd": "cd /verif && /venv/bin/python -m compileall -q vf && PYTHONPATH=/repo/src:/verif PYTHONHASHSEED=0 /venv/bin/python -W ignore -c \"from vf import common; common.bind_repo(); print('vf ok')\"",
        "hooks": {
            "guard": "EKW_VERIF",
            "enable": "no source hooks: checks import /repo/src directly (PYTHONPATH=/repo/src) and replace module attributes (seams) at run time; EKW_VERIF=1 is exported by ./check but nothing in the repository reads it",
            "baseline_off_cmd": "cd /repo && /venv/bin/python -m pytest -ra -q -p no:cacheprovider --timeout=900 --continue-on-collection-errors",
            "source_commits": hooks_commits,
            "add_only": True,
        },
        "engines": [
            {"name": "simcluster", "path": "vf/simcluster.py", "serves_properties": ["C01", "C02", "C03", "C04"],
             "kind_free_text": "stateless DFS with prefix replay + state-hash pruning over the real controller.run against a reference cluster behind the Bridge interface"},
        ],
        "checks": checks,
        "not_applicable": na,
        "notes": "All checks: ./check <ID> quick|thorough; exit 0 held, 1 VIOLATION, 2 harness error. known_findings.json lists known/fixed findings.",
    }
    json.dump(m, open(os.path.join(HERE, "MANIFEST.json"), "w"), indent=1)
    import jsonschema
    jsonschema.validate(m, json.load(open("/root/.vp/MANIFEST.schema.json")))
    print("MANIFEST ok:", len(checks), "checks,", len(na), "not_applicable")

main()
