#!/usr/bin/env python3
"""Regenerates MANIFEST.json from the table below (kept as code so it stays valid and in sync)."""
import json, os, subprocess

HERE = os.path.dirname(os.path.abspath(__file__))
props = [json.loads(l) for l in open(os.path.join(HERE, "properties.jsonl"))]

CHECKS = {
 "C01": dict(cat="model_checking", engine="simcluster", technique="explicit-state DFS (prefix replay, state-hash pruning) of the real controller over all event orders/batches against a reference cluster; trace replay on the in-process virtual cluster",
             text="Every delivery order and batching (bound 2/3) of completion/transfer/fetch events is enumerated for each job x cluster x requested-set configuration, running the real controller, scheduler, runner, Memory and serde; each terminal state's outputs are compared with a sequential interpreter. Exhaustive within the stated family, which unit tests cannot reach because they sample one schedule.",
             note="Cluster behind Bridge is the SimCluster reference model (eager causal execution, exactly-once FIFO-per-origin delivery); jobs <= 7 tasks, <= 4 hosts; the model is bound to the code by replaying maximal model traces (one per distinct command sequence) on vcluster with the real controller and executor stack, and vcluster itself is explored with delay bound 1.", ref="DESIGN.md 2.4, 3 C01"),
 "C02": dict(cat="model_checking", engine="simcluster", technique="explicit-state DFS of the real controller with dispatch monitors; exhaustive arrival-order enumeration for the worker loop",
             text="Dispatch monitors (exactly once, existing free worker, GPU, inputs produced and on host or in transfer) are evaluated on every Bridge call of every explored schedule, including every feasible GPU-worker subset.",
             note="'busy' judged from events delivered to the controller; reference cluster model and conformance replay as in C01; the worker-side clause runs the real worker loop under every arrival order of the command and its input notices.", ref="DESIGN.md 3 C02"),
 "C03": dict(cat="model_checking", engine="simcluster", technique="explicit-state DFS of the real controller; termination/progress monitors on every execution",
             text="All executions are finite (finite event supply), so the complete DFS covers every fair delivery order: each must return with all tasks done, outputs fetched, shutdown called, no idle round, no wait with nothing outstanding, no exception from bookkeeping.",
             note="Assumes exactly-once event delivery (C06); jobs incl. empty, isolated tasks, more/fewer components than hosts, GPU components.", ref="DESIGN.md 3 C03"),
 "C04": dict(cat="model_checking", engine="simcluster", technique="explicit-state DFS of the real controller with purge/transmit/fetch monitors",
             text="Monitors on every purge/transmit/fetch of every explored schedule: consumers done, requested value delivered, no unanswered transfer/fetch from the purged host, source holds the dataset, nothing needed after its purge.",
             note="'unanswered' = reply event not yet delivered to the controller; reference cluster model as in C01.", ref="DESIGN.md 3 C04"),
 "C05": dict(cat="fault_enumeration", engine="vcluster", technique="exhaustive fault enumeration (every task body point x {raise, sys.exit, kill}; every helper process x every scheduler step) on the whole runtime executed in one process under a virtual scheduler and clock",
             text="The real controller, Bridge, Executor, worker entrypoint, DataServer and shm server run as virtual processes over fake zmq/UDP/time/multiprocessing; for each job x cluster shape one fault per execution is injected at every enumerated point; the run must end (return correct values or raise) within 1000 virtual seconds, executors must exit and no helper process or shared-memory segment may remain.",
             note="Default schedule only in quick; faults: task body raise / sys.exit(3) / sys.exit() / kill at every body point, kill of every helper at every step once run() began, SIGTERM to the shm server (its registered handler runs), failure of every read a data server makes of a dataset it is asked to send; jobs with a 300-virtual-second task bound the time from fault to end of run (120 s). Kills unwind the virtual process with its seam calls disabled; zombie semantics and real time are outside the model and touched only by the real-process validation runs (repeated before they count).", ref="DESIGN.md 2.3, 3 C05"),
 "C06": dict(cat="model_checking", engine="bfs", technique="explicit-state BFS to closure over send/deliver/drop/duplicate/retry-timer histories of two real ReliableSender+Listener endpoints and of the stepped real Bridge/Executor receive loops; exhaustive frame-sequence enumeration for framing",
             text="All reachable states within a fault budget (drops/duplications) and an early-timer budget are enumerated on the real sender/listener code with max retries lowered to 3; in every state a fair closure (no more faults) must end with each message handed up exactly once or the sender raising, and a black-hole closure must end with the sender raising; the same for the real Bridge.recv_events/Executor.recv_loop stepped one pass at a time; all 781 frame sequences of length <=4 are fed to Listener._recv_one.",
             note="max_retries_per_message lowered by the harness; zmq reconnect/HWM not modelled; topologies pair (X<->Y) and fan-in (X->Y<-Z); the sender's loop also comes round 1 ms after each (re)transmission; stepped loops include a worker death and the controller's shutdown exchange under every single frame loss; faults apply to frames between controller and executor only.", ref="DESIGN.md 3 C06"),
 "C07": dict(cat="model_checking", engine="bfs", technique="explicit-state BFS to closure over real DataServer objects stepped one loop pass at a time (issue/deliver/drop/duplicate/complete-future/retry-timer), end-state oracle at every terminal state",
             text="For each scenario (transfer, redundant transfers, transfer+fetch, purge at target after the announcement, purge at source during a retry read, transfer to a holder, two datasets) all interleavings within a fault budget are enumerated to closure on the real DataServer, Listener, shm client/server/Manager code; terminal states must hold exactly one byte-identical copy, one announcement, one fetched payload, and nothing may be stored again after a processed purge.",
             note="Purges reach a data server only as the executor/controller can send them (after announcement / after the transfer was answered); futures complete at explorer-chosen steps; scenarios include sibling outputs of one task, a target store that refuses the payload, early resend timers, and two one-batch enumerations (retry read + purge; late payload of a redundant transfer + another frame).", ref="DESIGN.md 3 C07"),
 "C08": dict(cat="model_checking", engine="bfs", technique="explicit-state BFS over operation histories of the real shm client/server/Manager/Disk bodies with capacity invariants in every state; conformance replay on real shared memory and threads",
             text="Every history (bounded depth, or closure where reached) of allocate/finish-write/get/finish-read/purge and disk-job completions (ok or failing at two points) is executed on the real stack; after every event the ground-truth segment bytes, the protocol-derived resident total and the free space reported over the protocol are compared, and admission answers are checked.",
             note="Configurations: disk job atomic at its completion step; split (I/O and result delivery are two events); eager (jobs launched by the next request complete before it returns); purge_mid (a purge handled between a page-out job's attach and its unlink); trim (configured capacity above what the machine offers); stale_writers; rewrite (a purged key written again while its first writer is open); three-chunk sizes. Purge in transitional states follows the store; fake SharedMemory validated against the real one by replaying histories.", ref="DESIGN.md 3 C08"),
 "C09": dict(cat="model_checking", engine="bfs", technique="explicit-state BFS over operation histories of the real shm stack with byte-pattern, protection and bounded-liveness oracles in every state",
             text="Same state space as C08 with distinct byte patterns really written/read through segments and page-out/page-in round trips; monitors for read-before-close, page-out/unlink during read, delayed purge; in every reachable state a bounded liveness closure (complete jobs, retry) must end in a grant for every satisfiable request.",
             note="The 15-minute staleness windows are reached through an explicit 16-minute jump (readers; writers in the stale_writers configurations); configurations as C08; the liveness closure completes all jobs successfully and defers to the safety monitors.", ref="DESIGN.md 3 C09"),
 "C10": dict(cat="exploration", engine="enumeration", technique="bounded-exhaustive enumeration of node arities/argument layouts/output counts through the real graph2job and runner.run against direct evaluation of the graph",
             text="Every argument layout (0-3 slots x every input subset x 0-2 keyword statics), every output count N in {1,2,3,9,10,11,12} with several naming styles (hand-built and via fluent yields), and every miscount N-2..N+2 is lowered with the real graph2job and executed task by task through the real runner/Memory/serde; stored datasets are compared with direct evaluation of the graph.",
             note="Ambiguous payloads (static string equal to an input name, one input twice in args) excluded as the code documents.", ref="DESIGN.md 3 C10"),
 "C14": dict(cat="exploration", engine="enumeration", technique="bounded-exhaustive enumeration of payload-variant pairs and of operations with before/after snapshots",
             text="Every ordered pair of payload variants over shared sources is united (Graph +, Cascade.from_actions, graph2job): a name must carry one denotation, names must be reproducible in-process and under another hash seed; every operation of the fluent alphabet is run with snapshots of receiver, operand and an earlier derived action.",
             note="Callable identity = object identity; statics compared by value.", ref="DESIGN.md 3 C14"),
 "C11": dict(cat="exploration", engine="enumeration", technique="bounded-exhaustive enumeration of all DAGs (n<=4/5) x payload/output/name patterns through every transformation, compared with a symbolic interpreter",
             text="Every DAG of the family goes through copy, rename (3 maps), dedup (+idempotence, no duplicates left), fuse (3 callbacks, fused payloads unfolded), expand (every consumed node x 5 sub-graph shapes x colliding leaf names x explicit/default maps) and split (4 key functions, re-join along cut edges); sink denotations (names excluded) must be preserved and every input must be an Output of a Node.",
             note="Single-node sub-graphs outside the expand alphabet; graphs <= 5 nodes.", ref="DESIGN.md 3 C11"),
 "C12": dict(cat="exploration", engine="enumeration", technique="bounded-exhaustive enumeration of DAGs x payload alphabets through dict/JSON/file round trips with an independent structural comparison",
             text="Every DAG of the family (terminals with and without outputs, multi-output nodes, empty graph) plus graphs built by fluent programs is serialised and read back as dict, JSON and Cascade file; names, outputs, inputs and payloads are compared structurally and with Graph.__eq__.",
             note="Unique node names (precondition); JSON path only for JSON-faithful payloads.", ref="DESIGN.md 3 C12"),
 "C13": dict(cat="exploration", engine="enumeration", technique="bounded-exhaustive enumeration of fluent programs (op sequences to depth 2/3 over explicit parameter alphabets) against a NumPy-only reference model",
             text="Every program of the family is built with the real fluent API, its graph evaluated by a small payload interpreter and compared at every coordinate (values, dimension names/sizes/order, documented coordinates) with a reference that re-defines each operation from its documentation with NumPy; every batch size from 0 to beyond the dimension size, with and without keep_dim.",
             note="Values are small distinct integers in float64; labels compared only where documented; reduced dimensions have size >= 2; new-dimension names are fresh.", ref="DESIGN.md 3 C13"),
 "C15": dict(cat="exploration", engine="enumeration", technique="bounded-exhaustive enumeration of operations x arities x shapes x dtypes x axes x backends against NumPy, and of every batch partition for every function marked batchable",
             text="Each backend operation is called on plain arrays, DataArrays and Datasets for every argument count, shape, dtype and axis/dim/index of the alphabet and compared with NumPy; every function carrying the batchable marker (found by scanning Backend) is checked for f(f(b1),..,f(bk)) == f(all) over every partition of up to 5 arguments.",
             note="earthkit-data FieldList backend not importable here; values are small positive integers.", ref="DESIGN.md 3 C15"),
 "C16": dict(cat="exploration", engine="enumeration", technique="bounded-exhaustive enumeration of all DAGs (n<=5/6) x 6 variants against a networkx reference model",
             text="Every edge set over <=5 (quick) / <=6 (thorough) labelled tasks in six variants (single/multi outputs, multi-edges, reversed declaration order, one dataset into two parameters, placeholder outputs) goes through the real precompute() and is compared field by field with a networkx reference (components, sources, edge projections, depth, value, nearest-common-descendant distances).",
             note="Only the Python fallback of nearest_common_descendant is reachable (coptrs not installed); DAGs above 6 tasks outside the bound.", ref="DESIGN.md 3 C16"),
 "C17": dict(cat="exploration", engine="enumeration", technique="bounded-exhaustive enumeration of field-alphabet products per message class through the real encoders/decoders",
             text="Per message class the full product of boundary alphabets (sizes at and above 2^32, empty/long strings, out-of-domain values) through the real shm codec, pickle+multipart framing into the real Listener, controller reports, gateway client encoder/decoder pairs and JobInstance JSON; structural comparison.",
             note="Exhaustive over the alphabets, not over 64-bit domains; UDP datagram size limits are outside the codec.", ref="DESIGN.md 3 C17"),
 "C18": dict(cat="model_checking", engine="bfs", technique="explicit-state BFS to closure over report/submit histories of the real JobRouter/handle_fe/handle_controller, all queries checked in every state against a reference dict",
             text="All reachable states of the gateway for 2 (quick) / 3 (thorough) jobs under arbitrary order and duplication of progress/result/shutdown reports are enumerated to closure; in every state every frontend query is answered by the real handler and compared with the reference.",
             note="Spawning stubbed; fake zmq sockets; reports after shutdown are unread by construction of the gateway.", ref="DESIGN.md 3 C18"),
 "C19": dict(cat="exploration", engine="enumeration", technique="bounded-exhaustive enumeration of callables x bound values x edge endpoints x builder call interleavings with snapshot comparison",
             text="Every combination of the callable/value/edge alphabets is built on persistent builders; build() must return a well-formed job or a list of problems and never raise; values must appear under their positions/names; all earlier builders and jobs are re-inspected at the end.",
             note="Annotation alphabet = builtin types or absent.", ref="DESIGN.md 3 C19"),
}

def main():
    checks = []
    for pid, c in CHECKS.items():
        checks.append({
            "property_id": pid,
            "quick_cmd": f"./check {pid} quick",
            "thorough_cmd": f"./check {pid} thorough",
            "evidence_file": f"/verif/evidence/{pid}.json",
            "replay_cmd_template": f"./check {pid} --replay {{path}}",
            "engine": c["engine"],
            "level_claimed": {"category": c["cat"], "text": c["text"], "design_ref": c["ref"]},
            "level_note": c["note"],
            "technique": c["technique"],
        })
    na = [{"property_id": p["id"], "reason": "check not built yet in this snapshot (under construction; see DESIGN.md 3b for the order) - model checking applies and is planned"}
          for p in props if p["id"] not in CHECKS]
    hooks_commits = []
    m = {
        "version": 1,
        "setup_cmd": "cd /verif && /venv/bin/python -m compileall -q vf && PYTHONPATH=/repo/src:/verif PYTHONHASHSEED=0 /venv/bin/python -W ignore -c \"from vf import common; common.bind_repo(); print('vf ok')\"",
        "hooks": {
            "guard": "EKW_VERIF",
            "enable": "no source hooks: checks import /repo/src directly (PYTHONPATH=/repo/src) and replace module attributes (seams) at run time; EKW_VERIF=1 is exported by ./check but nothing in the repository reads it",
            "baseline_off_cmd": "cd /repo && /venv/bin/python -m pytest -ra -q -p no:cacheprovider --timeout=900 --continue-on-collection-errors",
            "source_commits": hooks_commits,
            "add_only": True,
        },
        "engines": [
            {"name": "simcluster", "path": "vf/simcluster.py", "serves_properties": ["C01", "C02", "C03", "C04"],
             "kind_free_text": "stateless DFS with prefix replay + state-hash pruning over the real controller.run against a reference cluster behind the Bridge interface"},
            {"name": "vcluster", "path": "vf/vcluster.py", "serves_properties": ["C01", "C02", "C03", "C04", "C05"],
             "kind_free_text": "whole distributed runtime as baton-passing virtual processes in one process (fake zmq/UDP/time/multiprocessing/SharedMemory), deterministic scheduler with fault injection"},
            {"name": "bfs", "path": "vf/checks", "serves_properties": ["C06", "C07", "C08", "C09", "C18"],
             "kind_free_text": "explicit-state BFS over operation histories (fresh real objects rebuilt per history, canonical state hashing)"},
            {"name": "enumeration", "path": "vf/checks", "serves_properties": ["C10", "C11", "C12", "C13", "C14", "C15", "C16", "C17", "C19"],
             "kind_free_text": "bounded-exhaustive input/program enumeration against a reference model"},
        ],
        "checks": checks,
        "not_applicable": na,
        "notes": "All checks: ./check <ID> quick|thorough; exit 0 held, 1 VIOLATION, 2 harness error. known_findings.json lists known/fixed findings.",
    }
    json.dump(m, open(os.path.join(HERE, "MANIFEST.json"), "w"), indent=1)
    import jsonschema
    jsonschema.validate(m, json.load(open("/root/.vp/MANIFEST.schema.json")))
    print("MANIFEST ok:", len(checks), "checks,", len(na), "not_applicable")

main()
