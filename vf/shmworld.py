"""ShmWorld: the real shm stack (client API -> api codec -> LocalServer dispatch -> Manager -> Disk bodies) stepped by
an explorer (DESIGN C08/C09).

Seams: fake SharedMemory namespace (POSIX semantics: unlink removes the name, open handles keep their bytes), fake UDP
socket that runs the real `LocalServer.start` loop for exactly one request, virtual clock and reader ids, in-memory
files, and a `Disk` subclass whose page_out/page_in enqueue the *real* `_page_out/_page_in` bodies for completion at an
explorer-chosen later step, successfully or with an injected fault.

Events (the alphabet):
  ("alloc", k)            client.allocate; on grant the writer fills the segment with k's byte pattern
  ("wclose", k)           the writer closes
  ("get", k)              client.get (<= 2 concurrent readers per key)
  ("rclose", k, i)        reader i of k verifies the bytes and closes
  ("purge", k)            client.purge
  ("done", j, variant)    pending disk job j completes: "ok" | "fail-early" | "fail-late"
"""
from __future__ import annotations

import atexit
import io
import os
import shutil
import tempfile
import types
import weakref
from typing import Any

import cascade.shm.api as api
import cascade.shm.client as client
import cascade.shm.dataset as dataset
import cascade.shm.disk as disk
import cascade.shm.server as server

from vf.common import HarnessError, seam


MON_PROP = {
    "segments_exceed_capacity": ("C08",), "resident_exceeds_capacity": ("C08",), "free_space_mismatch": ("C08",),
    "oversize_not_refused": ("C08",), "granted_early": ("C08",), "grant_existing_key": ("C08",), "refused_within_capacity": ("C08",),
    "free_space_query_failed": ("C08",), "grant_over_live_segment": ("C08",),
    "stale_disk_job_hit_new_dataset": ("C08", "C09"),
    "stale_writer_close_applied": ("C09",), "bytes_mismatch": ("C09",), "bytes_changed_during_read": ("C09",), "get_before_writer_closed": ("C09",),
    "pageout_during_read": ("C09",), "pageout_during_write": ("C09",), "unlink_during_read": ("C09",),
    "get_granted_without_segment": ("C09",), "get_unknown_granted": ("C09",), "deser_fun_mismatch": ("C09",),
    "get_error_on_held_key": ("C09",), "wait_forever": ("C09",), "deferred_purge_not_applied": ("C09",),
}


_ORIG: dict = {}


def _save_originals() -> None:
    if not _ORIG:
        _ORIG["SharedMemory"] = dataset.SharedMemory
        _ORIG["multiprocessing"] = disk.multiprocessing


_BASE: list = [None]


def files_base() -> str:
    """per-run base directory for page-out files; create it in the parent BEFORE forking workers"""
    if _BASE[0] is None:
        _BASE[0] = tempfile.mkdtemp(prefix="vf_shmfiles_")
        atexit.register(shutil.rmtree, _BASE[0], True)
    return _BASE[0]


class _LazyDir:
    """stands in for tempfile.TemporaryDirectory: `.name` creates the world's directory on first use"""

    def __init__(self, world):
        self.world = weakref.ref(world)

    @property
    def name(self) -> str:
        w = self.world()
        if w._dir is None:
            w._dir = tempfile.mkdtemp(dir=files_base())
            weakref.finalize(w, shutil.rmtree, w._dir, True)
        return w._dir

    def cleanup(self):
        w = self.world()
        if w is not None and w._dir:
            shutil.rmtree(w._dir, True)


class FaultInjected(Exception):
    pass


class ShmNamespace:
    def __init__(self):
        self.segments: dict[str, bytearray] = {}
        self.fail_open = False
        self.fail_unlink = False
        self.fail_create = False
        self.unlink_log: list[str] = []
        ns = self

        class SharedMemory:
            def __init__(self, name=None, create=False, size=0):
                if create:
                    if ns.fail_create:
                        ns.fail_create = False
                        raise FaultInjected("create")
                    if name in ns.segments:
                        raise FileExistsError(name)
                    ns.segments[name] = bytearray(size)
                else:
                    if ns.fail_open:
                        ns.fail_open = False
                        raise FaultInjected("open")
                    if name not in ns.segments:
                        raise FileNotFoundError(name)
                self.name = self._name = name
                self._data = ns.segments[name]
                self.size = len(self._data)
                self.buf = memoryview(self._data)

            def close(self):
                self.buf = None

            def unlink(self):
                if ns.fail_unlink:
                    ns.fail_unlink = False
                    raise FaultInjected("unlink")
                if self.name not in ns.segments or ns.segments[self.name] is not self._data:
                    raise FileNotFoundError(self.name)
                ns.unlink_log.append(self.name)
                del ns.segments[self.name]

        self.SharedMemory = SharedMemory


class OneShot(BaseException):
    pass


class World:
    def __init__(self, capacity: int, sizes: dict[str, int], variants=("ok", "fail-early", "fail-late"), real: bool = False, trim: bool = False):
        self.capacity, self.sizes, self.variants = capacity, dict(sizes), variants
        self.real = real
        self.trace: list = []
        self.last_free = None
        _save_originals()
        for mod, names in (
            (dataset, ("SharedMemory", "get_capacity", "time", "disk")),
            (disk, ("SharedMemory", "multiprocessing", "tempfile", "ThreadPoolExecutor")),
            (client, ("SharedMemory", "multiprocessing", "socket", "time")),
            (server, ("socket", "signal")),
            (api, ("get_client_port",)),
        ):
            for n in names:
                seam(mod, n)
        self.ns = ShmNamespace()
        self.files: dict[str, bytes] = {}
        self.clock = 1_700_000_000 * 10**9  # a realistic epoch in ns: unit slips (seconds vs ns) must show
        self.rd = 0
        w = self
        nomp = types.SimpleNamespace(resource_tracker=types.SimpleNamespace(unregister=lambda *a: None))
        if real:
            dataset.SharedMemory = disk.SharedMemory = client.SharedMemory = _ORIG["SharedMemory"]
            disk.multiprocessing = client.multiprocessing = _ORIG["multiprocessing"]
        else:
            dataset.SharedMemory = disk.SharedMemory = client.SharedMemory = self.ns.SharedMemory
            disk.multiprocessing = client.multiprocessing = nomp
        dataset.get_capacity = (lambda: capacity) if trim else (lambda: 1 << 40)

        def time_ns():
            w.clock += 1
            return w.clock

        # the whole clock interface on the one virtual clock (a tree that reads seconds must see the same time)
        dataset.time = types.SimpleNamespace(time_ns=time_ns, time=lambda: time_ns() / 1e9, monotonic_ns=time_ns,
                                             monotonic=lambda: time_ns() / 1e9, sleep=lambda s: None)

        def uuid4():
            w.rd += 1
            return f"{w.rd:08d}-xxxx"

        # reader ids: owned if the module draws them from uuid (a tree that derives them otherwise has nothing to own)
        if hasattr(dataset, "uuid"):
            dataset.uuid = types.SimpleNamespace(uuid4=uuid4)
        elif hasattr(dataset, "uuid4"):
            dataset.uuid4 = uuid4
        client.time = types.SimpleNamespace(sleep=lambda s: None)

        # the real _page_out/_page_in bodies write and read REAL files, in a directory created lazily per world under a
        # per-run base directory (removed when the world is collected and, wholesale, when the run ends)
        if hasattr(disk, "open"):
            del disk.open
        self._dir: str | None = None
        self.fail_file_open = False
        self.pending: list[tuple[str, str, tuple]] = []  # (kind, shmid, args)
        self.rewrite = False       # option: a purged key may be allocated again while the old writer is still open
        self.old_writers: dict = {}
        self.late_old_close: set = set()
        self.purge_mid = False     # option: a purge may be handled in the middle of a page-out job
        self.eager = None          # armed variant: jobs submitted by the next request complete inline
        self.arm_used = self.eager_fired = self.allow_arm = False
        self.abandoned: set = set()  # (key, incarnation) of unfinished datasets paged out under a stale writer
        self.io_result: list = []  # split mode: None while the job's I/O has not run, else the result awaiting delivery
        self.split = False  # split mode: a disk job's I/O and the delivery of its result to the store are two events

        real_disk = disk.Disk

        class VirtualDisk(real_disk):
            def __init__(self):
                if real:
                    real_disk.__init__(self)  # real temporary directory and real thread pools
                    return
                self.root = _LazyDir(w)
                self.readers = self.writers = types.SimpleNamespace(shutdown=lambda **k: None)

            def page_out(self, shmid, callback):
                w.pending.append(("out", shmid, (shmid, callback)))
                w.io_result.append(None)
                w.on_job_start("out", shmid)
                w._maybe_eager()

            def page_in(self, shmid, size, callback):
                w.pending.append(("in", shmid, (shmid, size, callback)))
                w.io_result.append(None)
                w.on_job_start("in", shmid)
                w._maybe_eager()

        self._real_disk = real_disk
        dataset.disk = types.SimpleNamespace(Disk=VirtualDisk)

        # server reached through a fake UDP socket: the real dispatch loop handles exactly one request
        class SrvSock:
            def __init__(self):
                self.inq, self.out = [], None

            def recvfrom(self, n):
                if not self.inq:
                    raise OneShot()
                return self.inq.pop(0), "client"

            def sendto(self, b, addr):
                self.out = bytes(b)

            def close(self):
                pass

            def bind(self, a):
                pass

        self.srvsock = SrvSock()
        server.socket = types.SimpleNamespace(socket=lambda *a: self.srvsock, AF_INET=2, SOCK_DGRAM=2)
        server.signal = types.SimpleNamespace(signal=lambda *a: None, SIGINT=2, SIGTERM=15)
        import os as _os

        # trim: the store is configured with far more than the machine offers and must trim itself to `capacity`
        self.srv = server.LocalServer(1, f"v{_os.getpid() % 100000}x" if real else "p", capacity * 250 if trim else capacity)
        self.mgr = self.srv.manager

        class CliSock:
            def __init__(self, *a):
                self.resp = None

            def connect(self, addr):
                pass

            def send(self, b):
                w.srvsock.inq.append(bytes(b))
                try:
                    w.srv.start()
                except OneShot:
                    pass
                self.resp = w.srvsock.out

            def recv(self, n):
                return self.resp

            def close(self):
                pass

        client.socket = types.SimpleNamespace(socket=CliSock, AF_INET=2, SOCK_DGRAM=2)
        api.get_client_port = lambda: 1

        # harness-side client state and the reference model
        self.writers: dict[str, Any] = {}
        self.readers: dict[str, list] = {}
        self.opened: dict[int, int] = {}      # id(buffer) -> clock value when the handle was opened
        self.aged_at: int | None = None       # clock value of the (single) 16-minute jump
        self.allow_age = False
        self.shmid2key: dict[str, str] = {}
        self.incarnation: dict[str, int] = {}
        self.ref_resident: dict[str, int] = {}   # key -> size, per the statement's definition
        self.ref_known: set[str] = set()         # keys the store holds in any form
        self.ref_ondisk: set[str] = set()
        self.ref_written: set[str] = set()       # writer has finished
        self.ref_delayed: set[str] = set()
        self.job_key: list[tuple[str, str, int]] = []  # parallel to pending: (kind, key, incarnation)
        self.viol: list[tuple[str, str, str]] = []
        self.last_answer = None

    # ------------------------------------------------------------ helpers
    def pattern(self, k: str) -> bytes:
        n = self.sizes[k]
        inc = self.incarnation.get(k, 0)
        return bytes(((ord(k[0]) * 7 + i * 13 + inc * 31) % 251) + 1 for i in range(n))

    def fresh(self, buf) -> bool:
        """a handle is fresh unless the 16-minute jump happened after it was opened"""
        return self.aged_at is None or self.opened.get(id(buf), 0) >= self.aged_at

    def fresh_readers(self, k: str) -> list:
        return [b for b in self.readers.get(k, []) if self.fresh(b)]

    def bad(self, mon: str, cause: str, msg: str) -> None:
        self.viol.append((mon, cause, msg))

    def on_job_start(self, kind: str, shmid: str) -> None:
        k = self.shmid2key.get(shmid)
        if k is None:
            raise HarnessError(f"disk job on unknown segment {shmid}")
        self.job_key.append((kind, k, self.incarnation.get(k, 0)))
        if kind == "out":
            if self.fresh_readers(k):
                self.bad("pageout_during_read", "page-out started while a reader younger than the staleness window holds the dataset", f"key {k}")
            if k in self.writers and self.fresh(self.writers[k]):
                self.bad("pageout_during_write", "page-out started while the writer is still open", f"key {k}")
            elif k in self.writers and k not in self.ref_written:
                self.abandoned.add((k, self.incarnation.get(k, 0)))  # unfinished dataset of a stale writer goes to disk
        else:
            # page-in reserves before reading back
            self.ref_resident[k] = self.sizes[k]
            self.ref_ondisk.discard(k)

    # ------------------------------------------------------------ events
    def enabled(self, max_readers: int = 2) -> list[tuple]:
        evs: list[tuple] = []
        for k in self.sizes:
            if k not in self.writers or (self.rewrite and k not in self.ref_known and not self.old_writers.get(k)):
                evs.append(("alloc", k))  # also by another client while the writer of a purged incarnation is still open
            if k in self.writers:
                evs.append(("wclose", k))
            if self.old_writers.get(k):
                evs.append(("owclose", k))
            if len(self.readers.get(k, [])) < max_readers:
                evs.append(("get", k))
            for i in range(len(self.readers.get(k, []))):
                evs.append(("rclose", k, i))
            evs.append(("purge", k))
        for j in range(len(self.pending)):
            if self.io_result[j] is not None:
                evs.append(("cb", j))  # split mode: the disk thread reports the result of I/O that already happened
                continue
            for v in self.variants:
                evs.append(("done", j, v))
            if self.purge_mid and self.pending[j][0] == "out" and not self.split:
                evs.append(("done", j, "purge-mid"))
        if self.allow_arm and not self.arm_used:
            evs.append(("arm", "ok"))
            evs.append(("arm", "fail-early"))
        if self.allow_age and self.aged_at is None and (not self.writers or self.allow_age == "writers") and (self.writers or any(self.readers.values())):
            evs.append(("age",))  # 16 minutes pass: every handle open now is older than the staleness window afterwards
        return evs

    def _maybe_eager(self) -> None:
        """armed: the disk thread is faster than the server thread -- the job just submitted runs to completion
        (callback included) before the request that launched it returns"""
        if self.eager is not None and not self.split and not self.real:
            self.eager_fired = True
            self.ev_done(len(self.pending) - 1, self.eager)

    def ev_arm(self, variant: str) -> None:
        self.eager = variant
        self.arm_used = True
        self.last_answer = "armed"

    def ev_age(self) -> None:
        self.clock += int(16 * 60 * 1e9)
        self.aged_at = self.clock
        self.last_answer = "aged"

    def apply(self, ev: tuple) -> None:
        n = len(self.viol)
        getattr(self, "ev_" + ev[0])(*ev[1:])
        if ev[0] != "arm":
            self.eager = None  # arming covers the next request only
        if len(self.viol) == n:  # a root-cause monitor fired inside the event: do not also report its consequences
            self.check_invariants(ev)
        self.trace.append((ev, self.last_answer, self.last_free, tuple(sorted((k, d.status.name) for k, d in self.mgr.datasets.items()))))

    def teardown(self) -> None:
        """real mode only: release /dev/shm segments, temp files and pools"""
        for bufs in list(self.readers.values()) + [list(self.writers.values())]:
            for b in bufs:
                try:
                    if b.shm is not None:
                        b.shm.close()
                except Exception:
                    pass
        self.mgr.atexit()

    def ev_alloc(self, k: str) -> None:
        size = self.sizes[k]
        free_before = self.capacity - sum(self.ref_resident.values())
        try:
            buf = client.allocate(k, size, "des_" + k, timeout_sec=0.05)
            ans = "granted"
        except client.ConflictError:
            ans = "conflict"
        except TimeoutError:
            ans = "wait"
        except ValueError as e:
            ans = "refused:" + str(e)
        except FileExistsError:
            ans = "granted-but-segment-exists"
        self.last_answer = ans
        known = k in self.ref_known
        if ans == "granted-but-segment-exists":
            self.bad("grant_over_live_segment", "allocation granted while a segment of that key still exists", f"alloc {k}")
            return
        if size > self.capacity:
            if not known and ans != "refused:capacity exceeded":
                self.bad("oversize_not_refused", "request larger than the capacity was not refused outright", f"alloc {k} size {size} -> {ans}")
        elif ans == "granted":
            if known:
                self.bad("grant_existing_key", "allocation granted for a key the store still holds", f"alloc {k}")
            if size > free_before:
                self.bad("granted_early", "request granted although it does not fit", f"alloc {k} size {size}, free {free_before}")
        elif ans == "wait":
            pass
        elif ans.startswith("refused"):
            self.bad("refused_within_capacity", "request within capacity refused with an error", f"alloc {k} -> {ans}")
        if ans == "granted":
            if k in self.writers:  # the writer of the purged incarnation has not closed yet
                self.old_writers.setdefault(k, []).append(self.writers.pop(k))
            self.incarnation[k] = self.incarnation.get(k, 0) + 1
            self.shmid2key[buf.shm.name] = k
            buf.view()[:size] = self.pattern(k)
            self.writers[k] = buf
            self.opened[id(buf)] = self.clock
            self.ref_resident[k] = size
            self.ref_known.add(k)
            self.ref_written.discard(k)
            self.ref_delayed.discard(k)

    def ev_wclose(self, k: str) -> None:
        buf = self.writers.pop(k)
        try:
            buf.close()
        except ValueError as e:
            # the store may have dropped the key meanwhile (purge while being written): an error answer is legitimate
            self.last_answer = "wclose-error"
            return
        self.last_answer = "ok"
        if k in self.ref_known and k in self.ref_resident:
            self.ref_written.add(k)

    def ev_owclose(self, k: str) -> None:
        """the writer of an earlier, purged incarnation of the key finally closes"""
        buf = self.old_writers[k].pop(0)
        st = lambda: (self.mgr.datasets[k].status.name if k in self.mgr.datasets else None)  # noqa: E731
        before = st()
        try:
            buf.close()
            self.last_answer = "ok"
        except ValueError:
            self.last_answer = "wclose-error"
        if k in self.writers and st() != before:
            # root cause reported here; what follows from it (early reads, page-out under the writer, a refused close of
            # the real writer) is not explored further
            self.bad("stale_writer_close_applied", "the close of the writer of an earlier, purged incarnation was applied to the re-allocated dataset, whose own writer is still open",
                     f"key {k}: {before} -> {st()}")

    def ev_get(self, k: str) -> None:
        try:
            buf = client.get(k, timeout_sec=0.05)
            ans = "granted"
        except TimeoutError:
            ans = "wait"
        except ValueError as e:
            ans = "error"
        except FileNotFoundError:
            ans = "granted-no-segment"
        self.last_answer = ans
        if ans == "granted-no-segment":
            self.bad("get_granted_without_segment", "get granted but the segment does not exist", f"get {k}")
            return
        if ans == "granted":
            if k not in self.ref_known:
                self.bad("get_unknown_granted", "get granted for a key the store should not hold", f"get {k}")
            if k not in self.ref_written:
                if (k, self.incarnation.get(k, 0)) in self.abandoned:
                    # the route through staleness: an unfinished dataset older than the window was paged out and back in
                    self.bad("get_before_writer_closed", "unfinished dataset of a writer older than the staleness window became readable after a page-out/page-in round trip", f"get {k}")
                else:
                    self.bad("get_before_writer_closed", "dataset readable before its writer finished", f"get {k}")
            if buf.deser_fun != "des_" + k:
                self.bad("deser_fun_mismatch", "decoding function differs from the one stored", f"{buf.deser_fun}")
            data = bytes(buf.view())
            if data != self.pattern(k):
                self.bad("bytes_mismatch", "bytes read differ from the bytes written under that key", f"get {k}: first difference at byte {next((i for i, (x, y) in enumerate(zip(data, self.pattern(k))) if x != y), min(len(data), len(self.pattern(k))))} of {len(data)}")
            self.readers.setdefault(k, []).append(buf)
            self.opened[id(buf)] = self.clock
        elif ans == "error" and k in self.ref_known and k in self.ref_written and k not in self.ref_delayed:
            self.bad("get_error_on_held_key", "get of a finished, held dataset answered with an error", f"get {k}")

    def ev_rclose(self, k: str, i: int) -> None:
        buf = self.readers[k].pop(i)
        was_fresh = self.fresh(buf)
        try:
            data = bytes(buf.view())
            if data != self.pattern(k):
                self.bad("bytes_changed_during_read", "bytes changed while a reader held the dataset", f"{k}")
            buf.close()
            self.last_answer = "ok"
        except ValueError:
            self.last_answer = "rclose-error"
        if not self.readers[k] and k in self.ref_delayed:
            if was_fresh or k not in self.mgr.datasets:
                if was_fresh and self.last_answer == "ok" and k in self.mgr.datasets and not self.mgr.datasets[k].ongoing_reads:
                    # C09: "a purge during a read takes effect when the last reader closes"
                    self.bad("deferred_purge_not_applied", "a purge deferred behind readers did not take effect when the last reader closed",
                             f"key {k}: status {self.mgr.datasets[k].status.name}, delayed_purge={self.mgr.datasets[k].delayed_purge}")
                self._ref_remove(k)
            else:
                # the closing reader was older than the staleness window: the store may have paged the dataset out under
                # it, and what a delayed purge means then is not defined by the statement -- the reference follows the store
                self.ref_delayed.discard(k)

    def ev_purge(self, k: str) -> None:
        try:
            client.purge(k)
            self.last_answer = "ok"
        except ValueError:
            self.last_answer = "error"
        if k not in self.ref_known:
            return
        if self.readers.get(k):
            self.ref_delayed.add(k)  # takes effect when the last reader closes
            return
        if k in self.ref_ondisk:
            return  # the store documents that an on-disk dataset is skipped by purge
        # Purge of a dataset that is being written, paged out or paged in is not defined by the statement:
        # the reference follows what the store did (it either dropped the key or ignored the request).
        if k not in self.mgr.datasets:
            self._ref_remove(k)

    def _ref_remove(self, k: str) -> None:
        self.ref_known.discard(k)
        self.ref_resident.pop(k, None)
        self.ref_ondisk.discard(k)
        self.ref_written.discard(k)
        self.ref_delayed.discard(k)

    def ev_cb(self, j: int) -> None:
        """split mode, second half of a disk job: the result of the I/O reaches the store's callback"""
        kind, shmid, args = self.pending.pop(j)
        ok = self.io_result.pop(j)
        _, k, inc = self.job_key.pop(j)
        current = self.incarnation.get(k, 0) == inc and k in self.ref_known
        snap = lambda: (shmid in self.ns.segments, repr(self.mgr.datasets.get(k)))  # noqa: E731
        before = snap()
        args[-1](ok)
        self.last_answer = f"{kind}:{'ok' if ok else 'failed'}"
        self._after_job(kind, k, ok, current, before, snap, "delivery")

    def _after_job(self, kind, k, ok, current, before, snap, variant) -> None:
        if not current:
            # a job that belongs to a dataset purged meanwhile must not touch a later dataset stored under that key
            if k in self.ref_known and snap() != before:
                self.bad("stale_disk_job_hit_new_dataset", "disk job of a purged dataset acted on a later dataset stored under the same key",
                         f"key {k}, job {kind}/{variant}: {before} -> {snap()}")
            return
        if kind == "out":
            if ok:
                self.ref_resident.pop(k, None)
                self.ref_ondisk.add(k)
            else:
                self._ref_remove(k)  # the store marks a failed page-out bad and drops the dataset
        else:
            if not ok:
                self._ref_remove(k)  # a failed page-in drops the dataset

    def ev_done(self, j: int, variant: str) -> None:
        if self.split:
            kind, shmid, args = self.pending[j]
            _, k, inc = self.job_key[j]
        else:
            kind, shmid, args = self.pending.pop(j)
            self.io_result.pop(j)
            _, k, inc = self.job_key.pop(j)
        d = self._real_disk
        vd = self.mgr.disk
        results: list[bool] = []
        cb = args[-1]

        def spy(ok: bool):
            results.append(ok)
            if not self.split:
                cb(ok)

        current = self.incarnation.get(k, 0) == inc and k in self.ref_known
        snap = lambda: (None if self.real else shmid in self.ns.segments, repr(self.mgr.datasets.get(k)))  # noqa: E731
        before = snap()
        if self.real:
            if variant != "ok":
                raise HarnessError("fault variants cannot be injected on the real shm/disk")
            if kind == "out":
                vd.writers.submit(d._page_out, vd, shmid, spy).result(timeout=30)
            else:
                vd.readers.submit(d._page_in, vd, shmid, args[1], spy).result(timeout=30)
        elif kind == "out":
            if variant == "fail-early":
                self.ns.fail_open = True
            elif variant == "fail-late":
                self.ns.fail_unlink = True
            elif variant == "purge-mid":
                # the server thread handles a purge of this key after the job attached the segment and before it
                # unlinks it: the file open inside _page_out is the point in between
                import builtins

                def hooked_open(*a, **kw):
                    del disk.open
                    self.ev_purge(k)
                    return builtins.open(*a, **kw)

                disk.open = hooked_open
            try:
                d._page_out(vd, shmid, spy)
            finally:
                if hasattr(disk, "open"):
                    del disk.open
            if variant == "purge-mid":
                current = self.incarnation.get(k, 0) == inc and k in self.ref_known
        else:
            if variant == "fail-early":
                self.ns.fail_create = True
            elif variant == "fail-late":
                # the file cannot be opened: the segment has been created by then
                fpath = os.path.join(vd.root.name, shmid)
                if os.path.exists(fpath):
                    os.rename(fpath, fpath + ".lost")
            d._page_in(vd, shmid, args[1], spy)
        self.ns.fail_open = self.ns.fail_unlink = self.ns.fail_create = False
        self.fail_file_open = False
        ok = bool(results and results[0])
        if self.split:
            if len(results) != 1:
                raise HarnessError(f"disk job body reported {len(results)} results")
            self.io_result[j] = ok
            self.last_answer = f"{kind}-io:{'ok' if ok else 'failed'}"
            if not current and k in self.ref_known and snap() != before:
                self.bad("stale_disk_job_hit_new_dataset", "disk job of a purged dataset acted on a later dataset stored under the same key",
                         f"key {k}, job {kind}/{variant} (I/O half): {before} -> {snap()}")
            return
        self.last_answer = f"{kind}:{'ok' if ok else 'failed'}"
        self._after_job(kind, k, ok, current, before, snap, variant)

    # ------------------------------------------------------------ invariants (C08) evaluated after every event
    def check_invariants(self, ev) -> None:
        seg_total = sum(len(b) for b in self.ns.segments.values())
        if seg_total > self.capacity:
            self.bad("segments_exceed_capacity", "bytes resident in existing segments exceed the capacity", f"{seg_total} > {self.capacity} after {ev}")
        ref_total = sum(self.ref_resident.values())
        if ref_total > self.capacity:
            self.bad("resident_exceeds_capacity", "datasets resident per the protocol history exceed the capacity", f"{ref_total} > {self.capacity} after {ev}; {self.ref_resident}")
        try:
            reported = client.get_free_space()
        except Exception as e:
            self.bad("free_space_query_failed", type(e).__name__, repr(e))
            return
        self.last_free = reported
        if reported != self.capacity - ref_total:
            st = {k: d.status.name for k, d in self.mgr.datasets.items()}
            lost = [k for k, d in self.mgr.datasets.items() if k not in self.ref_known]
            cause = "free space reported differs from capacity minus resident total"
            if lost:
                cause += " (store keeps accounting for a dataset it dropped after a failed disk job)" if any(st[k] in ("paged_in", "paging_out") for k in lost) else " (store keeps a dataset the protocol removed)"
            elif reported > self.capacity - ref_total:
                cause += " (over-reported)"
            self.bad("free_space_mismatch", cause, f"reported {reported}, capacity {self.capacity}, resident {self.ref_resident}, store {st}, after {ev}")
        for name in self.ns.unlink_log:
            k = self.shmid2key.get(name)
            if k is not None and self.fresh_readers(k):
                self.bad("unlink_during_read", "segment unlinked while a reader younger than the staleness window holds it", f"{k} after {ev}")
        del self.ns.unlink_log[:]

    # ------------------------------------------------------------ canonical state
    def canon(self):
        m = self.mgr
        stamps = set()
        for d in m.datasets.values():
            stamps.update([d.created, d.retrieved_first, d.retrieved_last, *d.ongoing_reads.values()])
        stamps.discard(0)
        rank = {t: i + 1 for i, t in enumerate(sorted(stamps))}
        rank[0] = 0
        ds = tuple(
            (k, d.status.name, d.size, d.delayed_purge, rank[d.created], rank[d.retrieved_first], rank[d.retrieved_last],
             tuple(sorted(rank[v] for v in d.ongoing_reads.values())))
            for k, d in sorted(m.datasets.items())
        )
        return (
            ds, m.free_space, m.pageout_all.locked(), m.pageout_count,
            tuple((jk[0], jk[1], jk[2] == self.incarnation.get(jk[1], 0)) for jk in self.job_key), tuple(self.io_result),
            tuple(sorted((self.shmid2key.get(n, n), bytes(b) == self.pattern(self.shmid2key[n]) if n in self.shmid2key else None) for n, b in self.ns.segments.items())),
            tuple(sorted(f for f in os.listdir(self._dir) if not f.endswith(".lost"))) if self._dir else (),
            tuple(sorted((k, self.fresh(b)) for k, b in self.writers.items())),
            tuple(sorted((k, tuple(sorted(self.fresh(b) for b in v))) for k, v in self.readers.items() if v)),
            self.aged_at is not None, self.eager, self.arm_used,
            tuple(sorted((k, d.created < (self.aged_at or 0), tuple(sorted(t < (self.aged_at or 0) for t in d.ongoing_reads.values()))) for k, d in m.datasets.items())),
            tuple(sorted(self.ref_resident)), tuple(sorted(self.ref_known)), tuple(sorted(self.ref_ondisk)),
            tuple(sorted(self.ref_written)), tuple(sorted(self.ref_delayed)),
            tuple(sorted((k, len(v)) for k, v in self.old_writers.items() if v)), tuple(sorted(self.late_old_close)),
            tuple(sorted(a for a in self.abandoned if self.incarnation.get(a[0], 0) == a[1] and a[0] in self.ref_known)),
        )


def build(cfg: dict, hist: list, real: bool = False) -> World:
    w = World(cfg["capacity"], cfg["sizes"], tuple(cfg.get("variants", ("ok", "fail-early", "fail-late"))), real=real, trim=bool(cfg.get("trim")) and not real)
    w.allow_age = cfg.get("age") or False  # True: readers may grow stale; "writers": writers too
    w.split = bool(cfg.get("split"))
    w.allow_arm = bool(cfg.get("eager"))
    w.purge_mid = bool(cfg.get("purge_mid"))
    w.rewrite = bool(cfg.get("rewrite"))
    for ev in hist:
        w.apply(tuple(ev))
    return w


def liveness_violations(cfg: dict, hist: list) -> list[tuple[str, str, str]]:
    """Bounded liveness (C09): from the state reached by hist, every request that fits once idle datasets are evicted
    must be granted after at most (#keys + 3) rounds of 'complete all pending disk jobs successfully, retry'."""
    w0 = build(cfg, hist)
    if w0.viol:
        return []
    reqs = []
    for k in w0.sizes:
        if k not in w0.ref_known and k not in w0.writers and w0.sizes[k] <= w0.capacity:
            reqs.append(("alloc", k))
        if k in w0.ref_known and k in w0.ref_written and len(w0.readers.get(k, [])) < 2:
            reqs.append(("get", k))
    out = []
    for req in reqs:
        w = build(cfg, hist)
        k = req[1]
        # only handles younger than the staleness window pin a dataset: one held by stale handles alone is idle by the
        # store's own rule (is_pageoutable) and must be evictable
        pinned = sum(w.sizes[j] for j in w.sizes if j != k and j in w.ref_resident
                     and ((j in w.writers and w.fresh(w.writers[j])) or any(w.fresh(b) for b in w.readers.get(j, []))))
        if w.sizes[k] + pinned > w.capacity:
            continue  # not satisfiable by evicting idle datasets
        granted = False
        deferred = False
        ans = None
        w.eager = None  # the closure completes every job successfully
        for _ in range(len(w.sizes) + 3):
            while w.pending:
                w.apply(("cb", 0) if w.io_result[0] is not None else ("done", 0, "ok"))
            if w.viol:
                deferred = True  # a safety monitor fired while the jobs completed: that root cause is reported by its own monitor
                break
            w.apply(req)
            ans = w.last_answer
            if w.viol:
                deferred = True
                break
            if ans == "granted":
                granted = True
                break
            if ans != "wait":
                break
        if not granted and ans == "wait" and not deferred:
            m = w.mgr
            stuck = [f"{kk}:{d.status.name}" for kk, d in m.datasets.items() if d.status.name in ("paged_in", "paging_out") and not w.pending]
            if m.pageout_all.locked() and not w.pending and not stuck:
                cause = "eviction lock still held although no page-out is in flight (an eviction attempt found nothing evictable)"
            elif stuck:
                cause = "a dataset is stuck in a transitional status with no disk job in flight"
            else:
                cause = "request fits after evicting idle datasets but is never granted"
            out.append(("wait_forever", cause, f"{req} answered 'wait' {len(w.sizes) + 3} times with all disk jobs completed; store { {kk: d.status.name for kk, d in m.datasets.items()} } free {m.free_space}"))
    return out
