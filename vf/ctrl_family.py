"""Job/cluster families and the shared driver for the controller model-checking checks C01-C04."""
from __future__ import annotations

import itertools
import time

from vf import common
from vf.jobs import JobSpec, all_dags, canonical_dags, simple_job
from vf.simcluster import Config, config_from_json, explore, replay_one, to_violations

SHAPES_QUICK = [(1, 1), (1, 2), (2, 1), (2, 2), (3, 1)]
SHAPES_THOROUGH = SHAPES_QUICK + [(3, 2), (4, 1)]


def curated(ext_modes=("sinks", "all", "interior")) -> list[JobSpec]:
    base = [
        ("single", 1, []),
        ("chain3", 3, [(0, 1), (1, 2)]),
        ("fork", 3, [(0, 1), (0, 2)]),
        ("join", 3, [(0, 2), (1, 2)]),
        ("diamond", 4, [(0, 1), (0, 2), (1, 3), (2, 3)]),
        ("fan3", 4, [(0, 1), (0, 2), (0, 3)]),
        ("2comp", 4, [(0, 1), (2, 3)]),
        ("3comp", 5, [(0, 1), (2, 3)]),
    ]
    out: list[JobSpec] = []
    for name, n, es in base:
        for mode in ext_modes:
            if mode == "interior":
                if not es:
                    continue
                ext = [(es[0][0], "0")]
            else:
                ext = mode
            out.append(simple_job(f"{name}/{mode}", n, es, ext))
    # 2-output producer, one output unconsumed; requested = the unconsumed output + sink
    out.append(simple_job("multi/unconsumed", 2, [(0, 1)], [(0, "b"), (1, "0")], outs={0: ["a", "b"]}))
    # 2-output producer feeding two consumers from different outputs; everything requested
    out.append(simple_job("multi/split", 3, [(0, 1), (0, 2)], "all", outs={0: ["a", "b"]}, src_out={(0, 2): "b"}))
    # 3-output producer with outputs whose key order differs from a natural reading
    out.append(simple_job("multi/three", 3, [(0, 1), (0, 2)], "all", outs={0: ["x", "a", "m"]}, src_out={(0, 1): "x", (0, 2): "a"}))
    # a multi-output task that itself consumes a dataset (outputs declared in an order that is not their sorted order)
    out.append(simple_job("multi/mid", 4, [(0, 1), (0, 2), (1, 3)], "sinks", outs={1: ["x", "a", "m"]}, src_out={(1, 3): "x"}))
    # keyword and positional edges mixed
    out.append(simple_job("mixed-kw", 3, [(0, 2), (1, 2)], "all", kw_edges=[(1, 2)]))
    # one dataset feeding two parameters of the same task (positional + keyword)
    t = {
        "t0": {"outs": ["0"], "ps": {0: "s0"}, "kw": {}},
        "t1": {"outs": ["0"], "ps": {1: "s1"}, "kw": {"c": 1}},
    }
    out.append(JobSpec("same-ds-twice", t, [("t0", "0", "t1", 0), ("t0", "0", "t1", "again")], [("t1", "0"), ("t0", "0")]))
    # a keyword edge into a parameter that also carries a static (default) value: the upstream value must win
    t2 = {
        "t0": {"outs": ["0"], "ps": {0: "s0"}, "kw": {}},
        "t1": {"outs": ["0"], "ps": {0: "s1"}, "kw": {"p": "default-of-p", "q": "untouched"}},
    }
    out.append(JobSpec("kw-edge-over-default", t2, [("t0", "0", "t1", "p")], [("t1", "0")]))
    # requested output that also has consumers elsewhere (replication of a requested dataset)
    out.append(simple_job("fork/root-requested", 3, [(0, 1), (0, 2)], [(0, "0"), (1, "0")]))
    out.append(simple_job("diamond/root+sink", 4, [(0, 1), (0, 2), (1, 3), (2, 3)], [(0, "0"), (3, "0")]))
    # a child that consumes two outputs of one multi-output parent (their notices may arrive in separate batches)
    tb = {
        "t0": {"outs": ["a", "b"], "ps": {0: "s0"}, "kw": {}},
        "t1": {"outs": ["0"], "ps": {2: "s1"}, "kw": {"c": 1}},
    }
    out.append(JobSpec("multi/both", tb, [("t0", "a", "t1", 0), ("t0", "b", "t1", 1)], [("t1", "0")]))
    # eleven numbered outputs: '10' sorts before '2' as a string; consumers of outputs 10 and 2, output 9 requested
    te = {
        "t0": {"outs": [str(i) for i in range(11)], "ps": {0: "s0"}, "kw": {}},
        "t1": {"outs": ["0"], "ps": {1: "s1"}, "kw": {}},
        "t2": {"outs": ["0"], "ps": {1: "s2"}, "kw": {}},
    }
    out.append(JobSpec("multi/eleven", te, [("t0", "10", "t1", 0), ("t0", "2", "t2", 0)], [("t1", "0"), ("t2", "0"), ("t0", "9")]))
    # two datasets whose task and output names concatenate to the same text ("a"+"10" and "a1"+"0")
    tc = {
        "a": {"outs": ["10"], "ps": {0: "sa"}, "kw": {}},
        "a1": {"outs": ["0"], "ps": {0: "sa1"}, "kw": {}},
        "z": {"outs": ["0"], "ps": {2: "sz"}, "kw": {}},
    }
    out.append(JobSpec("concat-names", tc, [("a", "10", "z", 0), ("a1", "0", "z", 1)], [("z", "0"), ("a", "10"), ("a1", "0")]))
    # tasks whose value is None (a function without a return statement): as a requested sink, and as a requested
    # dataset that also feeds a consumer
    for nm, nones, ext in (("none-sink", [1], [(1, "0")]), ("none-mid", [0], [(0, "0"), (1, "0")])):
        sp = simple_job(f"{nm}", 2, [(0, 1)], ext)
        for i in nones:
            sp.tasks[f"t{i}"]["none"] = True
        out.append(sp)
    return out


def widened_c03() -> list[JobSpec]:
    out = [
        JobSpec("empty", {}, [], []),
        simple_job("isolated3/all", 3, [], "all"),
        simple_job("isolated3/none", 3, [], "none"),
        simple_job("chain2+1/none", 3, [(0, 1)], "none"),
        simple_job("3comp-mixed/sinks", 6, [(0, 1), (1, 2), (3, 4)], "sinks"),
        simple_job("4comp/sinks", 4, [], "sinks"),
        simple_job("2x-chain2/all", 4, [(0, 1), (2, 3)], "all"),
        simple_job("join+chain/sinks", 5, [(0, 2), (1, 2), (3, 4)], "sinks"),
    ]
    return out


def wide_configs(quick: bool) -> list[Config]:
    """Fan-outs wider than the producing host, with blockers that keep the other host busy, so that consumers of one
    dataset are scheduled in different rounds on sibling workers and on remote hosts (batch bound 1: these are large)."""
    specs = [simple_job("fan3+join/sinks", 7, [(0, 1), (0, 2), (0, 3), (4, 6), (5, 6)], "sinks"),
             # more consumers than the whole cluster has workers: two sibling workers of the remote host both get one
             simple_job("fan4/sinks", 5, [(0, 1), (0, 2), (0, 3), (0, 4)], "sinks")]
    if not quick:
        specs += [
            simple_job("fan3+2iso/sinks", 6, [(0, 1), (0, 2), (0, 3)], "sinks"),
            simple_job("fan3+join/root", 7, [(0, 1), (0, 2), (0, 3), (4, 6), (5, 6)], [(0, "0"), (6, "0")]),
            simple_job("chainfan+iso/sinks", 6, [(0, 1), (1, 2), (1, 3), (1, 4)], "sinks"),
        ]
    shapes = [(2, 2)] if quick else [(2, 2), (3, 1), (2, 1)]
    return [Config(s, h, w, (), 1) for s in specs for (h, w) in shapes]


def gpu_configs(batch: int) -> list[Config]:
    """GPU tasks with every GPU-worker subset that keeps the job feasible (>= 1 gpu worker)."""
    out = []
    specs = [
        simple_job("gpu-2comp", 4, [(0, 1), (2, 3)], "sinks", gpu=[1]),
        simple_job("gpu-chain", 3, [(0, 1), (1, 2)], "sinks", gpu=[1]),
        simple_job("gpu-fork", 3, [(0, 1), (0, 2)], "sinks", gpu=[1, 2]),
        simple_job("gpu-src-join", 4, [(0, 3), (1, 3), (2, 3)], "sinks", gpu=[0]),      # a GPU source next to CPU sources
        simple_job("gpu-src+cpu-iso", 3, [(0, 2)], "sinks", gpu=[0]),                    # GPU source, CPU source, consumer
    ]
    for spec in specs:
        for hosts, workers in [(1, 2), (2, 1), (2, 2)]:
            slots = [(h, w) for h in range(hosts) for w in range(workers)]
            for r in range(1, len(slots) + 1):
                for sub in itertools.combinations(slots, r):
                    out.append(Config(spec, hosts, workers, sub, batch))
    return out


def small_dag_specs(maxn: int, canonical: bool = True, mode: str = "sinks") -> list[JobSpec]:
    out = []
    for n in range(1, maxn + 1):
        dags = canonical_dags(n) if canonical else all_dags(n)
        for i, es in enumerate(dags):
            out.append(simple_job(f"dag{n}.{i}/{mode}", n, es, mode))
    return out


def dag_variant_specs(maxn: int) -> list[JobSpec]:
    """systematic variants of every canonical DAG with <= maxn tasks (thorough tiers):
    multi   - every producer has two outputs declared ["b", "a"], consumers alternate between them
    kw      - every second edge is a keyword edge into a parameter that also carries a static default
    all     - every dataset requested"""
    out = []
    for n in range(2, maxn + 1):
        for i, es in enumerate(canonical_dags(n)):
            if not es:
                continue
            producers = sorted({a for a, _ in es})
            outs = {p: ["b", "a"] for p in producers}
            src_out = {e: ["b", "a"][k % 2] for k, e in enumerate(es)}
            out.append(simple_job(f"dag{n}.{i}/multi", n, es, "sinks", outs=outs, src_out=src_out))
            spec = simple_job(f"dag{n}.{i}/kw", n, es, "sinks", kw_edges=[e for k, e in enumerate(es) if k % 2 == 0])
            for (a, so, b, param) in spec.edges:
                if isinstance(param, str):
                    spec.tasks[b]["kw"][param] = f"default-{param}"
            out.append(spec)
            if n <= 3:
                out.append(simple_job(f"dag{n}.{i}/all", n, es, "all"))
    return out


def gpu_dag_configs(batch: int, maxn: int = 3) -> list[Config]:
    """every canonical DAG with <= maxn tasks x each single task needing a GPU x every non-empty GPU-worker subset on 1x2 and 2x1"""
    out = []
    for n in range(1, maxn + 1):
        for i, es in enumerate(canonical_dags(n)):
            for g in range(n):
                spec = simple_job(f"dag{n}.{i}/gpu{g}", n, es, "sinks", gpu=[g])
                for hosts, workers in [(1, 2), (2, 1)]:
                    slots = [(h, w) for h in range(hosts) for w in range(workers)]
                    for r in range(1, len(slots) + 1):
                        for sub in itertools.combinations(slots, r):
                            out.append(Config(spec, hosts, workers, sub, batch))
    return out


def _explore_one(arg):
    cfg_json, max_exec, deadline, prune, ntraces = arg
    cfg = config_from_json(cfg_json)
    res = explore(cfg, max_exec=max_exec, deadline=deadline, prune=prune, keep_traces=ntraces if not cfg.gpu_workers else 0)
    res["cfg"] = cfg_json
    # conformance: replay maximal model traces (one per distinct command sequence, capped) on the real executor stack
    conf = {"replayed": 0, "failures": [], "out_of_connection_order": 0}
    if res["traces"]:
        from vf import conformance

        for ch in res["traces"]:
            ex = replay_one(cfg, ch)
            r = conformance.replay(cfg, ex.sim.log)
            conf["replayed"] += 1
            if not r["ok"]:
                conf["failures"].append((ch, r["why"]))
            else:
                conf["out_of_connection_order"] += r.get("out_of_connection_order", 0)
    res["conformance"] = conf
    return res


def weight(c: Config) -> int:
    return (len(c.job.tasks) + 2 * len(c.job.ext_outputs)) * min(c.hosts * c.workers, 3)


QUICK_SKIP = ("fan3/all@3x1", "3comp/all@", "multi/three@2x1", "multi/three@3x1")


def quick_filter(configs: list[Config]) -> list[Config]:
    """configurations whose exhaustive exploration needs > ~25 s of one core are left to the thorough tier"""
    return [c for c in configs if not any(c.label().startswith(p) for p in QUICK_SKIP)]


def run_family(ctx: common.Ctx, prop: str, configs: list[Config], max_exec: int, budget_s: float) -> dict:
    """Explore every configuration exhaustively (fork pool), attribute violations of `prop`, fill coverage."""
    configs = common.rotate(configs, ctx.seed)
    configs = sorted(configs, key=weight, reverse=True)  # big ones first: better pool balance
    deadline = time.time() + budget_s if budget_s else 0.0
    ntraces = ctx.pick(3, 40)
    args = [(c.describe(), max_exec, deadline, True, ntraces) for c in configs]
    results = common.pmap(_explore_one, args)
    tot = {"executions": 0, "states": 0, "transitions": 0, "terminal": 0, "pruned": 0, "aborted": 0}
    capped = []
    multi_outcome = []
    shapes = 0
    conf_n = conf_ooo = 0
    for cfg, res in zip(configs, results):
        st = res["stats"]
        for k in tot:
            tot[k] += st[k]
        if st["capped"]:
            capped.append(res["label"])
        if st["outcomes"] > 1:
            multi_outcome.append((res["label"], res["outcome_set"]))
        shapes += st["cmd_shapes"]
        ctx.add_violations(to_violations(cfg, res, prop))
        conf_n += res["conformance"]["replayed"]
        conf_ooo += res["conformance"]["out_of_connection_order"]
        for ch, why in res["conformance"]["failures"]:
            kind = ("event of the model never produced by the implementation" if "was not produced" in why else
                    "controller calls differ between model and implementation" if "calls differ" in why else
                    "implementation produced events the model did not predict" if "did not predict" in why else
                    "final outputs differ or the real run raised" if ("outputs differ" in why or "raised" in why) else "real controller keeps waiting")
            ctx.add_violation(common.Violation({"monitor": "model_vs_implementation", "cause": kind}, f"[{cfg.label()}] {why}", {"config": cfg.describe(), "choices": ch, "conformance": True}))
        if res["sample"] is not None:
            ctx.sample(res["sample"], cap=3)
    ctx.coverage.update(
        states=tot["states"], transitions=tot["transitions"], executions=tot["executions"],
        terminal_executions=tot["terminal"], pruned_revisits=tot["pruned"], aborted_on_violation=tot["aborted"],
        configurations=len(configs), distinct_command_sequences=shapes,
        configs_with_more_than_one_outcome=len(multi_outcome), capped_configs=capped,
        exhaustive=not capped,
    )
    ctx.coverage["traces_validated_against_impl"] = conf_n
    ctx.coverage["conformance_releases_out_of_connection_order"] = conf_ooo
    if prop == "C01" and multi_outcome:
        # outcome must not depend on the schedule: report as a violation of C01
        for label, outs in multi_outcome[:3]:
            ctx.add_violation(common.Violation({"monitor": "schedule_dependent_outcome", "cause": "more than one terminal outcome for one configuration"},
                                               f"{label}: {outs[:3]}", {"config": configs[[c.label() for c in configs].index(label)].describe(), "choices": [], "explore": True}))
    return {"results": results, "configs": configs}


def replay(ctx: common.Ctx, data: dict, prop: str) -> list[common.Violation]:
    cfg = config_from_json(data["config"])
    ex = replay_one(cfg, list(data["choices"]))
    if data.get("conformance"):
        from vf import conformance

        r = conformance.replay(cfg, ex.sim.log)
        if r["ok"]:
            return []
        why = r["why"]
        kind = ("event of the model never produced by the implementation" if "was not produced" in why else
                "controller calls differ between model and implementation" if "calls differ" in why else
                "implementation produced events the model did not predict" if "did not predict" in why else
                "final outputs differ or the real run raised" if ("outputs differ" in why or "raised" in why) else "real controller keeps waiting")
        return [common.Violation({"monitor": "model_vs_implementation", "cause": kind}, why, data)]
    return [common.Violation(sig, msg, data) for (p, sig, msg) in ex.sim.violations if p == prop]
