"""Entry point: python -m vf.run <ID> quick|thorough   |   python -m vf.run <ID> --replay <file>"""
from __future__ import annotations

import importlib
import json
import os
import sys
import traceback

from vf import common

LEVELS = {
    "C01": "model_checking", "C02": "model_checking", "C03": "model_checking", "C04": "model_checking",
    "C05": "fault_enumeration", "C06": "model_checking", "C07": "model_checking", "C08": "model_checking",
    "C09": "model_checking", "C10": "exploration", "C11": "exploration", "C12": "exploration",
    "C13": "exploration", "C14": "exploration", "C15": "exploration", "C16": "exploration",
    "C17": "exploration", "C18": "model_checking", "C19": "exploration",
}


def main(argv: list[str]) -> int:
    if len(argv) < 2:
        print(__doc__)
        return 2
    pid = argv[0].upper()
    if os.environ.get("PYTHONHASHSEED") != "0":
        os.environ["PYTHONHASHSEED"] = "0"
        os.execv(sys.executable, [sys.executable, "-W", "ignore", "-m", "vf.run"] + argv)
    try:
        common.bind_repo()
        mod = importlib.import_module(f"vf.checks.{pid.lower()}")
        seed = int(os.environ.get("VERIF_SEED", "0") or 0)
        if argv[1] == "--replay":
            path = argv[2]
            with open(path) as f:
                body = json.load(f)
            ctx = common.Ctx(pid, "quick", seed, LEVELS[pid])
            obs = []
            for _ in range(2):
                got = mod.replay(ctx, json.loads(json.dumps(body["replay"])))
                obs.append(sorted(common.sig_key(g.signature) for g in got))
            if obs[0] != obs[1]:
                raise common.HarnessError(f"replay not deterministic: {obs}")
            want = common.sig_key(body["signature"])
            if want in obs[0]:
                print(f"VIOLATION property={pid} replay={path}")
                print(f"  signature={want}")
                for g in got:
                    if common.sig_key(g.signature) == want:
                        print("  " + g.message[:2000])
                return 1
            print(f"[{pid}] replay of {path}: violation NOT reproduced on this tree (observed {obs[0]})")
            return 0
        tier = argv[1] if argv[1] in ("quick", "thorough") else (os.environ.get("VERIF_TIER") or argv[1])
        if tier not in ("quick", "thorough"):
            print(f"unknown tier {tier}")
            return 2
        ctx = common.Ctx(pid, tier, seed, LEVELS[pid])
        mod.run(ctx)
        return common.finish(ctx, getattr(mod, "replay", None))
    except common.HarnessError as e:
        print(f"HARNESS-ERROR [{pid}]: {e}", file=sys.stderr)
        return 2
    except Exception:
        print(f"HARNESS-ERROR [{pid}]: unexpected\n{traceback.format_exc()}", file=sys.stderr)
        return 2


if __name__ == "__main__":
    sys.exit(main(sys.argv[1:]))
