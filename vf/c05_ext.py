"""C05 thorough extensions: (a) every task-body fault combined with every single schedule deviation (delay bound 1) on
one configuration; (b) pairs of faults: every task-body fault combined with the kill of every helper process at a
coarse grid of scheduler steps. Same oracle as the single-fault enumeration (vf.checks.c05.judge)."""
from __future__ import annotations

from vf import common


def _run_dev(arg):
    from vf.checks import c05

    cfg, fault, dev = arg
    rec = c05.execute(cfg, fault, deviations=dev)
    v = c05.judge(cfg, fault, rec)
    for sig, msg, rp in v:
        rp["deviations"] = dev
    return rec, v


def _run_pair(arg):
    from vf.checks import c05

    cfg, fault, kill = arg
    rec = c05.execute(cfg, fault, second_kill=kill)
    v = c05.judge(cfg, fault, rec)
    out = []
    kind = kill["proc"].split(":")[0]
    for sig, msg, rp in v:
        if sig["monitor"] == "segments_left_behind" and kind == "shm":
            # the segments of a killed shm server stay behind whatever else happens: same root cause as the single fault
            sig = dict(sig, cause="shm process killed: shared-memory segments left behind")
        else:
            sig = dict(sig, cause=sig["cause"] + f" (plus {kind} killed)")
        rp = dict(rp, second_kill=kill)
        out.append((sig, msg, rp))
    return rec, out


def run(ctx) -> dict:
    from vf.checks import c05

    n_dev = n_pair = 0
    # (a) delay bound 1 on top of every body fault
    cfg = {"job": "fork3", "hosts": 1, "workers": 2}
    job = c05.make_job(cfg["job"])
    for fault in c05.body_faults(job):
        base = c05.execute(cfg, fault)
        widths = base.get("choice_widths", [])
        devs = [{str(i): a} for i, w in enumerate(widths) for a in range(1, w)]
        for rec, viols in common.pmap(_run_dev, [(cfg, fault, d) for d in devs], chunksize=8):
            n_dev += 1
            for sig, msg, rp in viols:
                ctx.add_violation(common.Violation(sig, msg, rp))
    # (b) pairs: body fault + helper kill on a grid of steps
    cfg2 = {"job": "chain2", "hosts": 2, "workers": 1}
    base = c05.execute(cfg2, None)
    helpers = [n for (n, k) in base["procs"] if k in ("worker", "dataserver", "shm")]
    grid = list(range(base["run_started_step"] + 1, base["steps"] + 1, 6))
    job2 = c05.make_job(cfg2["job"])
    args = [(cfg2, f, {"proc": h, "step": s}) for f in c05.body_faults(job2) for h in helpers for s in grid]
    for rec, viols in common.pmap(_run_pair, args, chunksize=8):
        n_pair += 1
        for sig, msg, rp in viols:
            ctx.add_violation(common.Violation(sig, msg, rp))
    return {"body_fault_x_schedule_deviation": n_dev, "fault_pairs": n_pair}
