"""In-memory stand-in for the `zmq` module attribute of the cascade modules (a seam, see DESIGN 2.3).

A `Net` is one virtual network. PUSH sockets append multipart frames to the queue of the address they are connected to;
a PULL socket bound to that address pops them. An optional *in-flight* stage per address lets an explorer decide when
(and whether, and how often) a frame arrives. Blocking calls go through `net.block`, which a threaded harness
(vcluster) overrides with a baton hand-off; without one, an empty receive is a harness error and poll returns at once.

REQ sockets call a registered responder synchronously (gateway request/response).
"""
from __future__ import annotations

import collections
from typing import Callable

from vf.common import HarnessError


class Net:
    PULL, PUSH, REQ, REP, POLLIN, LINGER = 7, 8, 3, 4, 1, 17

    def __init__(self, staged: bool = False):
        self.net = self
        self.queues: dict[str, collections.deque] = collections.defaultdict(collections.deque)  # arrived
        self.flight: list[tuple[str, list[bytes], object]] = []  # (addr, frames, sender tag) not yet arrived
        self.staged = staged
        self.sent_log: list[tuple[str, list[bytes]]] = []
        self.responders: dict[str, Callable[[bytes], bytes]] = {}
        self.block: Callable | None = None  # (cond, timeout_ms) -> None; set by threaded harnesses
        self.bound: dict[str, "Socket"] = {}
        self.on_send: Callable | None = None
        self.nsock = 0
        self.local_prefixes: tuple = ()  # addresses that never cross the network (delivered at once, no faults)
        self.hold_filter: Callable | None = None  # (addr, frames) -> True: keep the frame in `flight` until released
        outer = self

        class Socket:
            def __init__(self, typ):
                self.typ, self.addr, self.closed = typ, None, False
                self.pending_reply = None
                outer.nsock += 1
                self.tag = outer.nsock  # frames of one socket arrive in order; different sockets are unordered

            def set(self, *a, **k):
                pass

            setsockopt = set

            def bind(self, addr):
                self.addr = addr
                outer.bound[addr] = self

            def bind_to_random_port(self, base):
                port = 20000 + len(outer.bound)
                self.bind(f"{base}:{port}")
                return port

            def connect(self, addr):
                self.addr = addr

            def close(self, *a, **k):
                self.closed = True

            def send(self, b, *a, **k):
                if self.typ == outer.REQ:
                    r = outer.responders.get(self.addr)
                    if r is None:
                        raise HarnessError(f"no responder for REQ to {self.addr}")
                    self.pending_reply = r(bytes(b))
                    return
                if self.typ == outer.REP:
                    self.pending_reply = bytes(b)
                    return
                self.send_multipart((b,))

            def send_multipart(self, frames, *a, **k):
                fr = [bytes(f) for f in frames]
                outer.sent_log.append((self.addr, fr))
                if outer.on_send is not None:
                    outer.on_send(self, fr)
                if outer.hold_filter is not None:
                    if outer.hold_filter(self.addr, fr):
                        outer.flight.append((self.addr, fr, self.tag))
                    else:
                        outer.queues[self.addr].append(fr)
                elif outer.staged and not self.addr.startswith(outer.local_prefixes):
                    outer.flight.append((self.addr, fr, self.tag))
                else:
                    outer.queues[self.addr].append(fr)

            def _ready(self):
                return len(outer.queues[self.addr]) > 0

            def poll(self, timeout=None, flags=None):
                if self.typ == outer.REQ:
                    return 1 if self.pending_reply is not None else 0
                return 1 if self._ready() else 0

            def recv_multipart(self, *a, **k):
                if not self._ready():
                    if outer.block is None:
                        raise HarnessError(f"recv on empty queue {self.addr} without a scheduler")
                    outer.block(self._ready, None)
                return outer.queues[self.addr].popleft()

            def recv(self, *a, **k):
                if self.typ == outer.REQ:
                    r, self.pending_reply = self.pending_reply, None
                    return r
                return self.recv_multipart()[0]

        class Context:
            def socket(self, typ):
                return Socket(typ)

            def term(self):
                pass

            def destroy(self, *a, **k):
                pass

        class Poller:
            def __init__(self):
                self.socks = []

            def register(self, sock, flags=None):
                if sock not in self.socks:
                    self.socks.append(sock)

            def unregister(self, sock):
                self.socks.remove(sock)

            def poll(self, timeout=None):
                rd = lambda: [(s, outer.POLLIN) for s in self.socks if s._ready()]  # noqa: E731
                r = rd()
                if r or timeout == 0 or outer.block is None:
                    return r
                outer.block(lambda: bool(rd()), timeout)
                return rd()

        self.Socket, self.Context, self.Poller = Socket, Context, Poller

    def deliverable(self) -> list[int]:
        """indices into `flight` of the frames that may arrive next: the oldest frame of every socket"""
        seen, out = set(), []
        for i, (_, _, tag) in enumerate(self.flight):
            if tag not in seen:
                seen.add(tag)
                out.append(i)
        return out

    # ---- explorer-side operations on the in-flight stage
    def deliver(self, i: int = 0) -> None:
        addr, fr, _ = self.flight.pop(i)
        self.queues[addr].append(fr)

    def drop(self, i: int = 0) -> None:
        self.flight.pop(i)

    def duplicate(self, i: int = 0) -> None:
        addr, fr, tag = self.flight[i]
        self.flight.insert(i + 1, (addr, list(fr), tag))
