"""DsWorld: real DataServer objects for hosts A and B plus a controller endpoint (real Listener), each data server over a
real shm Manager reached through the real shm client / LocalServer code, stepped one recv_loop pass at a time with
virtual futures, virtual clock and an in-flight stage for frames (DESIGN C07)."""
from __future__ import annotations

import pickle
import types
from concurrent.futures import Future

import cascade.executor.comms as comms
import cascade.executor.data_server as ds_mod
import cascade.executor.msg as msg
import cascade.shm.api as shm_api
import cascade.shm.client as shm_client
import cascade.shm.dataset as shm_dataset
import cascade.shm.disk as shm_disk
import cascade.shm.server as shm_server
from cascade.executor.runner.memory import ds2shmid
from cascade.executor.serde import des_message, ser_message
from cascade.low.core import DatasetId

from vf.common import HarnessError, seam
from vf.fakezmq import Net
from vf.shmworld import OneShot, ShmNamespace

HOSTS = ("A", "B")
RETRY_NS = 4_001_000_000


class VPool:
    def __init__(self, max_workers=None):
        self.pending: list = []

    def submit(self, fn, *a):
        f: Future = Future()
        self.pending.append((f, fn, a))
        return f

    def complete(self, i: int = 0):
        f, fn, a = self.pending.pop(i)
        f.set_running_or_notify_cancel()
        try:
            f.set_result(fn(*a))
        except Exception as e:  # noqa
            f.set_exception(e)

    def shutdown(self, *a, **k):
        pass


class World:
    def dsid(self, name: str) -> DatasetId:
        """datasets of different tasks by default; in 'siblings' scenarios they are outputs of one task"""
        return DatasetId("t", name) if self.scenario.get("siblings") else DatasetId(name, "0")

    def __init__(self, scenario: dict, faults: int, early_ticks: int = 0):
        for mod, names in (
            (comms, ("zmq", "get_context")), (ds_mod, ("ThreadPoolExecutor", "wait", "time_ns", "shm_api")),
            (shm_client, ("socket", "SharedMemory", "multiprocessing", "time")), (shm_server, ("socket", "signal")),
            (shm_dataset, ("SharedMemory", "get_capacity", "disk", "time")), (shm_api, ("get_client_port", "publish_client_port")),
        ):
            for n in names:
                seam(mod, n)
        import logging.config

        logging.config.dictConfig = lambda *a, **k: None
        self.scenario, self.faults_left, self.early_left = scenario, faults, early_ticks
        self.wait_choices: list = []
        self.wait_options: list = []
        self.net = Net(staged=True)
        self.net.local_prefixes = ("m.",)  # notices to the host's executor are local
        self.clock = [10_000_000_000_000]
        comms.zmq = self.net
        comms.get_context = lambda: self.net.Context()
        ds_mod.time_ns = lambda: self.clock[0]
        ds_mod.ThreadPoolExecutor = VPool
        ds_mod.wait = self._wait
        # shm: one namespace, one real LocalServer per host, client routed by the current host
        self.ns = ShmNamespace()
        nomp = types.SimpleNamespace(resource_tracker=types.SimpleNamespace(unregister=lambda *a: None))
        shm_dataset.SharedMemory = shm_client.SharedMemory = shm_disk.SharedMemory = self.ns.SharedMemory
        shm_client.multiprocessing = shm_disk.multiprocessing = nomp
        shm_dataset.get_capacity = lambda: 1 << 30
        shm_dataset.disk = types.SimpleNamespace(Disk=lambda: types.SimpleNamespace(atexit=lambda: None))
        self._t = [1000]

        def tns():
            self._t[0] += 1
            return self._t[0]

        shm_dataset.time = types.SimpleNamespace(time_ns=tns)
        self._u = [0]

        def uuid4():
            self._u[0] += 1
            return f"{self._u[0]:08d}-x"

        if hasattr(shm_dataset, "uuid"):
            shm_dataset.uuid = types.SimpleNamespace(uuid4=uuid4)
        shm_client.time = types.SimpleNamespace(sleep=lambda s: None)
        shm_api.get_client_port = lambda: 1
        shm_api.publish_client_port = lambda p: None
        self.cur = None
        w = self

        class SrvSock:
            def __init__(self):
                self.inq, self.out = [], None

            def recvfrom(self, n):
                if not self.inq:
                    raise OneShot()
                return self.inq.pop(0), "c"

            def sendto(self, b, addr):
                self.out = bytes(b)

            def bind(self, a):
                pass

            def close(self):
                pass

        self.srv: dict = {}
        self.purge_log: list = []
        shm_server.signal = types.SimpleNamespace(signal=lambda *a: None, SIGINT=2, SIGTERM=15)
        for h in HOSTS:
            sock = SrvSock()
            shm_server.socket = types.SimpleNamespace(socket=lambda *a, sock=sock: sock, AF_INET=2, SOCK_DGRAM=2)
            self.srv[h] = (shm_server.LocalServer(1, f"p{h}", scenario.get("capacity", {}).get(h, 1 << 20)), sock)

        class CliSock:
            def __init__(self, *a):
                self.resp = None

            def connect(self, a):
                pass

            def send(self, b):
                if w.cur is None:
                    raise HarnessError("shm client used without a current host")
                srv, sock = w.srv[w.cur]
                req = shm_api.deser(bytes(b))
                if isinstance(req, shm_api.PurgeRequest):
                    w.on_shm_purge(w.cur, req.key)
                sock.inq.append(bytes(b))
                try:
                    srv.start()
                except OneShot:
                    pass
                self.resp = sock.out

            def recv(self, n):
                return self.resp

            def close(self):
                pass

        shm_client.socket = types.SimpleNamespace(socket=CliSock, AF_INET=2, SOCK_DGRAM=2)
        # the data servers themselves (their own __init__)
        self.ds: dict = {}
        for h in HOSTS:
            self.cur = h
            self.ds[h] = ds_mod.DataServer(f"m.{h}", f"d.{h}", h, 1, {})
        self.ctrl = comms.Listener("ctrl")
        self.ctrl_payloads: list = []
        self.viol: list = []
        self.issued = 0
        self.crashed: dict = {}
        self.purge_processed: dict = {h: set() for h in HOSTS}
        self.stored_after_purge = False
        # initial contents
        self.data = {}
        for (h, name) in scenario["initial"]:
            d = self.dsid(name)
            self.data[d] = (f"bytes-of-{name}".encode(), f"des.{name}")
            self._put(h, d)

    # ---- helpers
    def _put(self, h, d):
        self.cur = h
        b, des = self.data[d]
        buf = shm_client.allocate(ds2shmid(d), len(b), des)
        buf.view()[: len(b)] = b
        buf.close()

    def holds(self, h, d):
        mgr = self.srv[h][0].manager
        ds = mgr.datasets.get(ds2shmid(d))
        if ds is None:
            return None
        seg = self.ns.segments.get(ds.shmid)
        return (bytes(seg) if seg is not None else None, ds.deser_fun, ds.status.name)

    def _wait(self, futs, return_when=None):
        """concurrent.futures.wait on virtual futures: complete pending ones of the current host in submission order"""
        pool = self.ds[self.cur].ds_proc_tp
        futs = list(futs)
        if return_when == ds_mod.FIRST_COMPLETED:
            if not futs or any(f.done() for f in futs):
                return
            mine = [i for i, (f, _, _) in enumerate(pool.pending) if f in futs]
            if not mine:
                raise HarnessError("wait(FIRST_COMPLETED) on futures that are neither done nor pending")
            # which future finishes first is the thread pool's choice: default the oldest, scripted otherwise
            c = self.wait_choices.pop(0) if self.wait_choices else 0
            self.wait_options.append(len(mine))
            pool.complete(mine[c % len(mine)])
        else:
            while any(not f.done() for f in futs):
                mine = [i for i, (f, _, _) in enumerate(pool.pending) if f in futs]
                if not mine:
                    raise HarnessError("wait(ALL_COMPLETED) on futures that are neither done nor pending")
                pool.complete(mine[0])

    def on_shm_purge(self, h, key):
        pool = self.ds[h].ds_proc_tp
        for (f, fn, a) in pool.pending:
            m = a[0]
            d = m.ds if isinstance(m, msg.DatasetTransmitCommand) else m.header.ds
            if ds2shmid(d) == key:
                self.viol.append(("purge_during_transfer", "shared-memory purge issued while a send/store of that dataset is still in progress", f"{h}: {m}"))

    def published(self, h):
        return [des_message(fr[0]) for fr in self.net.queues[f"m.{h}"]]

    # ---- events
    def cmd_frames(self, i):
        c = self.scenario["commands"][i]
        kind = c[0]
        d = self.dsid(c[1])
        # the controller numbers its acknowledged sends with one counter over all hosts and message kinds, independently
        # of the transmit idx: small numbers on both sides, so the two number spaces overlap (offset per scenario)
        syn = self.scenario.get("ctrl_syn_offset", 1) + i
        if kind == "transmit":
            _, _, src, dst, idx = c
            m = msg.DatasetTransmitCommand(source=src, target=dst, daddress=f"d.{dst}", ds=d, idx=idx)
            return f"d.{src}", [ser_message(msg.Syn(syn, "ctrl")), ser_message(m)], True
        if kind == "fetch":
            _, _, src, idx = c
            m = msg.DatasetTransmitCommand(source=src, target="controller", daddress="ctrl", ds=d, idx=idx)
            return f"d.{src}", [ser_message(msg.Syn(syn, "ctrl")), ser_message(m)], True
        if kind == "purge":
            _, _, host = c
            return f"d.{host}", [ser_message(msg.DatasetPurge(ds=d))], False
        raise ValueError(kind)

    def cmd_enabled(self, i) -> bool:
        c = self.scenario["commands"][i]
        if c[0] != "purge":
            return True
        d = self.dsid(c[1])
        host = c[2]
        if self.scenario.get("purge_guard", {}).get(str(i)) == "after-announcement":
            # the executor forwards a purge only for datasets it has seen published on its host
            return any(isinstance(m, msg.DatasetPublished) and m.ds == d for m in self.published(host))
        if self.scenario.get("purge_guard", {}).get(str(i)) == "after-answer":
            # C04: the controller purges a source only after the transfer it commanded from there was answered, i.e.
            # after the target announced the arrival (a retry of the transfer may still be reading at the source)
            tgt = self.scenario["purge_guard"]["target"]
            if self.scenario["purge_guard"].get("fetched") and not any(p.header.ds == d for p in self.ctrl_payloads):
                return False  # the controller also waits for the value of a requested output
            return any(isinstance(m, msg.DatasetPublished) and m.ds == d for m in self.published(tgt))
        return True

    def enabled(self):
        evs = []
        if self.issued < len(self.scenario["commands"]) and self.cmd_enabled(self.issued):
            evs.append(("issue",))
        for k, i in enumerate(self.net.deliverable()):
            addr, fr, _ = self.net.flight[i]
            evs.append(("deliver", k))
            if self.faults_left > 0:
                first = pickle.loads(fr[0])
                is_cmd = len(fr) == 2 and isinstance(pickle.loads(fr[1]), msg.DatasetTransmitCommand)
                if not is_cmd:
                    evs.append(("drop", k))  # payload and confirmation frames may be lost
                evs.append(("dup", k))
        for h in HOSTS:
            if h in self.crashed:
                continue
            for j in range(len(self.ds[h].ds_proc_tp.pending)):
                evs.append(("complete", h, j))
        # time passes (one 4 s poll timeout): every data server runs a loop pass incl. its retry scan. Only when no frame
        # is in flight (timers fire when nothing else is enabled) and some server has bookkeeping to do.
        quiet = not self.net.flight and not any(self.ds[h].ds_proc_tp.pending for h in HOSTS if h not in self.crashed)
        if any(h not in self.crashed and (self.ds[h].awaiting_confirmation or self.ds[h].futs_in_progress) for h in HOSTS) and (quiet or self.early_left > 0):
            evs.append(("tick",))  # a timer firing while frames are in flight or futures are running costs from the early-timer budget
        return evs

    def _retry_due(self, h):
        wm = self.clock[0] - 4_000_000_000
        return any(0 < at < wm for (_, at) in self.ds[h].awaiting_confirmation.values())

    def apply(self, ev):
        k = ev[0]
        if k == "issue":
            addr, frames, staged = self.cmd_frames(self.issued)
            self.issued += 1
            if staged:
                self.net.flight.append((addr, frames, ("ctrl", addr)))
            else:
                self.net.queues[addr].append(frames)
                if addr[2:] not in self.crashed:
                    self.do_pass(addr[2:])
        elif k in ("deliver", "drop", "dup"):
            i = self.net.deliverable()[ev[1]]
            if k == "deliver":
                addr = self.net.flight[i][0]
                self.net.deliver(i)
                # arrival and handling by the receiving loop are one step
                if addr == "ctrl":
                    for m in self.ctrl.recv_messages(0):
                        if isinstance(m, msg.DatasetTransmitPayload):
                            self.ctrl_payloads.append(m)
                elif addr[2:] in HOSTS and addr[2:] not in self.crashed:
                    self.do_pass(addr[2:])
            elif k == "drop":
                self.net.drop(i)
                self.faults_left -= 1
            else:
                self.net.duplicate(i)
                self.faults_left -= 1
        elif k == "pass":
            self.wait_choices = list(ev[2]) if len(ev) > 2 else []
            self.do_pass(ev[1])
        elif k == "queue":  # a frame arrives while the loop is busy: it is handled together with the next batch
            self.net.deliver(self.net.deliverable()[ev[1]])
        elif k == "issue-queued":
            addr, frames, staged = self.cmd_frames(self.issued)
            self.issued += 1
            self.net.queues[addr].append(frames)
        elif k == "complete":
            self.cur = ev[1]
            self.ds[ev[1]].ds_proc_tp.complete(ev[2])
            self.after_store_checks()
        elif k == "ctrl_recv":
            for m in self.ctrl.recv_messages(0):
                if isinstance(m, msg.DatasetTransmitPayload):
                    self.ctrl_payloads.append(m)
        elif k == "tick":
            if self.net.flight or any(self.ds[h].ds_proc_tp.pending for h in HOSTS if h not in self.crashed):
                self.early_left -= 1
            self.clock[0] += RETRY_NS
            for h in HOSTS:
                if h not in self.crashed:
                    self.do_pass(h)

    def do_pass(self, h):
        self.cur = h
        server = self.ds[h]
        real = server.dlistener.recv_messages
        seen_purges = []

        def once(timeout_ms=None):
            server.terminating = True
            ms = real(0)
            for m in ms:
                if isinstance(m, msg.DatasetPurge):
                    seen_purges.append(m.ds)
            return ms

        server.dlistener.recv_messages = once
        server.terminating = False
        try:
            server.recv_loop()
        except HarnessError:
            raise
        except Exception as e:
            self.crashed[h] = repr(e)
            self.viol.append(("data_server_crashed", f"{type(e).__name__} in recv_loop", f"{h}: {e!r}"))
        finally:
            server.dlistener.recv_messages = real
            server.terminating = False
        for d in seen_purges:
            self.purge_processed[h].add(d)
        self.after_store_checks()

    def after_store_checks(self):
        for h in HOSTS:
            for d in self.purge_processed[h]:
                if self.holds(h, d) is not None:
                    self.viol.append(("resurrected_after_purge", "dataset stored again on a host after its purge was processed", f"{h}: {d!r}"))

    # ---- fair closure and end-state oracle
    def closure(self):
        for _ in range(40):
            progressed = False
            while self.issued < len(self.scenario["commands"]) and self.cmd_enabled(self.issued):
                self.apply(("issue",))
                progressed = True
            while self.net.flight:
                self.net.deliver(0)
                progressed = True
            for h in HOSTS:
                if h in self.crashed:
                    continue
                if self.net.queues[f"d.{h}"] or self.ds[h].futs_in_progress or self._retry_due(h):
                    self.do_pass(h)
                    progressed = True
                while self.ds[h].ds_proc_tp.pending:
                    self.cur = h
                    self.ds[h].ds_proc_tp.complete(0)
                    progressed = True
                if self.ds[h].futs_in_progress and h not in self.crashed:
                    self.do_pass(h)
            if self.net.queues["ctrl"]:
                self.apply(("ctrl_recv",))
                progressed = True
            self.after_store_checks()
            if not progressed:
                unconfirmed = [h for h in HOSTS if h not in self.crashed and any(at > 0 for (_, at) in self.ds[h].awaiting_confirmation.values())]
                if unconfirmed and not all(set(self.ds[h].awaiting_confirmation) <= self.ds[h].acks for h in unconfirmed):
                    self.clock[0] += RETRY_NS
                    continue
                if unconfirmed:
                    # confirmed transfers are dropped from the table by one more scan
                    self.clock[0] += RETRY_NS
                    for h in unconfirmed:
                        self.do_pass(h)
                    if not self.net.flight:
                        break
                    continue
                break
        return self.end_checks()

    def end_checks(self):
        out = list(self.viol)
        sc = self.scenario
        if self.issued < len(sc["commands"]):
            return out  # a guarded command never became enabled (e.g. after a crash): nothing to conclude at the end
        for exp in sc["expect"]:
            kind = exp[0]
            d = self.dsid(exp[1])
            if kind == "held":
                _, _, h = exp
                got = self.holds(h, d)
                if got is None:
                    out.append(("transfer_not_stored", "target does not hold the dataset after the transfer completed", f"{h}: {d!r}; awaiting {self.ds['A'].awaiting_confirmation}"))
                elif (got[0], got[1]) != self.data[d]:
                    out.append(("bytes_or_decoder_differ", "bytes or decoding function at the target differ from the source", f"{h}: {got} vs {self.data[d]}"))
            elif kind == "not-held":
                _, _, h = exp
                if self.holds(h, d) is not None:
                    out.append(("held_after_purge", "host still holds the dataset although its purge was processed", f"{h}: {d!r}"))
            elif kind == "announced":
                _, _, h, lo, hi = exp
                n = sum(1 for m in self.published(h) if isinstance(m, msg.DatasetPublished) and m.ds == d)
                if not (lo <= n <= hi):
                    out.append(("announcement_count", f"arrival announced {'more than once' if n > hi else 'never'}", f"{h}: {d!r} announced {n} times, expected {lo}..{hi}"))
            elif kind == "fetched":
                ps = [p for p in self.ctrl_payloads if p.header.ds == d]
                if len(ps) != 1:
                    out.append(("fetch_count", f"controller received the fetched payload {len(ps)} times", f"{d!r}"))
                elif (bytes(ps[0].value), ps[0].header.deser_fun) != self.data[d]:
                    out.append(("fetch_bytes_differ", "fetched bytes or decoding function differ from the source", f"{d!r}"))
            elif kind == "failure-reported":
                _, _, h = exp
                n = sum(1 for m in self.published(h) if isinstance(m, msg.DatasetTransmitFailure))
                if n == 0:
                    out.append(("store_failure_silent", "the target could not store the payload and nobody was told", f"{h}: {d!r}; published {self.published(h)}"[:300]))
        fails = [m for h in HOSTS for m in self.published(h) if isinstance(m, msg.DatasetTransmitFailure)]
        if fails and not any(e[0] == "failure-reported" for e in sc["expect"]):
            out.append(("transmit_failure_reported", "a data server reported DatasetTransmitFailure in a fault pattern it should tolerate", f"{fails[0]}"[:300]))
        return out

    def canon(self):
        def frames(fr):
            return tuple(repr(pickle.loads(f))[:100] if f[:1] == b"\x80" else f.hex()[:16] for f in fr)

        order, ranks = {}, []
        for (_, _, tag) in self.net.flight:
            order.setdefault(tag, len(order))
            ranks.append(order[tag])
        now = self.clock[0]
        per = []
        for h in HOSTS:
            s = self.ds[h]
            per.append((
                h in self.crashed,
                tuple(sorted((i, repr(c.ds), (at > 0), (0 < at < now - 4_000_000_000)) for i, (c, at) in s.awaiting_confirmation.items())),
                tuple(sorted(s.acks)), tuple(sorted(map(repr, s.invalid))),
                tuple((type(k).__name__, repr(k)[:80], f.done()) for k, f in s.futs_in_progress.items()),
                tuple(repr(a[0])[:80] for (_, _, a) in s.ds_proc_tp.pending),
                tuple(sorted(map(repr, s.dlistener.acked))),
                tuple(sorted((k, d.status.name) for k, d in self.srv[h][0].manager.datasets.items())),
                tuple(map(repr, self.published(h))),
            ))
        return (
            self.issued, self.faults_left, self.early_left, tuple(per),
            tuple((a, frames(fr), r) for (a, fr, _), r in zip(self.net.flight, ranks)),
            tuple((a, tuple(frames(fr) for fr in q)) for a, q in sorted(self.net.queues.items()) if q and not a.startswith("m.")),
            tuple(repr(p.header) for p in self.ctrl_payloads), tuple(sorted(map(repr, self.ctrl.acked))),
        )


def build(scenario: dict, faults: int, hist: list, early_ticks: int = 0) -> World:
    w = World(scenario, faults, early_ticks)
    for ev in hist:
        w.apply(tuple(ev))
    return w


SCENARIOS = {
    "T": {"initial": [("A", "d")], "commands": [("transmit", "d", "A", "B", 0)],
          "expect": [("held", "d", "B"), ("announced", "d", "B", 1, 1), ("held", "d", "A")]},
    "T,T'": {"initial": [("A", "d")], "commands": [("transmit", "d", "A", "B", 0), ("transmit", "d", "A", "B", 1)],
             "expect": [("held", "d", "B"), ("announced", "d", "B", 1, 1)]},
    "T+fetch": {"initial": [("A", "d")], "commands": [("transmit", "d", "A", "B", 0), ("fetch", "d", "A", 1)],
                "expect": [("held", "d", "B"), ("announced", "d", "B", 1, 1), ("fetched", "d")]},
    "T;purge@B": {"initial": [("A", "d")], "commands": [("transmit", "d", "A", "B", 0), ("purge", "d", "B")], "purge_guard": {"1": "after-announcement"},
                  "expect": [("not-held", "d", "B"), ("announced", "d", "B", 1, 1)]},
    "T,T';purge@B": {"initial": [("A", "d")], "commands": [("transmit", "d", "A", "B", 0), ("transmit", "d", "A", "B", 1), ("purge", "d", "B")], "purge_guard": {"2": "after-announcement"},
                     "expect": [("not-held", "d", "B"), ("announced", "d", "B", 1, 1)]},
    "T;purge@A": {"initial": [("A", "d")], "commands": [("transmit", "d", "A", "B", 0), ("purge", "d", "A")], "purge_guard": {"1": "after-answer", "target": "B"},
                  "expect": [("held", "d", "B"), ("announced", "d", "B", 1, 1), ("not-held", "d", "A")]},
    "T+fetch;purge@A": {"initial": [("A", "d")], "commands": [("transmit", "d", "A", "B", 0), ("fetch", "d", "A", 1), ("purge", "d", "A")],
                        "purge_guard": {"2": "after-answer", "target": "B", "fetched": True},
                        "expect": [("held", "d", "B"), ("announced", "d", "B", 1, 1), ("fetched", "d"), ("not-held", "d", "A")]},
    # the target's store refuses the payload (larger than its capacity): not a frame fault, but the transfer must not vanish
    "T;store-refused@B": {"initial": [("A", "d")], "commands": [("transmit", "d", "A", "B", 0)], "capacity": {"B": 4},
                          "expect": [("failure-reported", "d", "B"), ("not-held", "d", "B")]},
    "T-to-holder": {"initial": [("A", "d"), ("B", "d")], "commands": [("transmit", "d", "A", "B", 0)],
                    "expect": [("held", "d", "B"), ("announced", "d", "B", 0, 0)]},
    # both directions: B is a source first and a target later; controller Syn numbers overlap the transmit idx space
    "T(d:A>B),T(e:B>A)": {"initial": [("A", "d"), ("B", "e")], "commands": [("transmit", "d", "A", "B", 0), ("transmit", "e", "B", "A", 1)],
                          "expect": [("held", "d", "B"), ("held", "e", "A"), ("announced", "d", "B", 1, 1), ("announced", "e", "A", 1, 1)]},
    # a purge at the source of e while a (retry) read of e and a read of another dataset may both be in progress
    "T(d),T(e);purge(e)@A": {"initial": [("A", "d"), ("A", "e")], "commands": [("transmit", "e", "A", "B", 0), ("transmit", "d", "A", "B", 1), ("purge", "e", "A")],
                             "purge_guard": {"2": "after-answer", "target": "B"},
                             "expect": [("held", "d", "B"), ("held", "e", "B"), ("announced", "d", "B", 1, 1), ("announced", "e", "B", 1, 1), ("not-held", "e", "A")]},
    "T(d),T(e)": {"initial": [("A", "d"), ("A", "e")], "commands": [("transmit", "d", "A", "B", 0), ("transmit", "e", "A", "B", 1), ("fetch", "e", "A", 2)],
                  "expect": [("held", "d", "B"), ("held", "e", "B"), ("announced", "d", "B", 1, 1), ("announced", "e", "B", 1, 1), ("fetched", "e")]},
}


def batch_pass_check() -> tuple[int, list]:
    """Batches: several frames handled by ONE loop pass, with every choice of which future `wait(FIRST_COMPLETED)` sees
    finishing first. Prepared state: e was transferred A->B and announced, its confirmation was lost, the 4 s scan
    started a retry read of e at A; then the command for d and the purge of e reach A's loop in one batch."""
    sc = SCENARIOS["T(d),T(e);purge(e)@A"]

    def to(w, addr, kind="deliver"):
        for k, i in enumerate(w.net.deliverable()):
            if w.net.flight[i][0] == addr:
                w.apply((kind, k))
                return
        raise HarnessError(f"batch scenario: no frame in flight to {addr}: {[f[0] for f in w.net.flight]}")

    def prepare():
        w = build(sc, 1, [], 0)
        w.apply(("issue",))            # command T(e: A->B)
        to(w, "d.A")                   # arrives at A, read of e submitted
        w.apply(("complete", "A", 0))  # payload sent
        to(w, "d.B")                   # arrives at B, store submitted
        w.apply(("complete", "B", 0))  # stored and announced
        to(w, "d.A", "drop")           # the confirmation is lost
        while w.net.flight:            # acknowledgements to the controller
            w.apply(("deliver", 0))
        w.apply(("tick",))             # 4 s later A's scan starts a retry read of e
        return w

    runs = 0
    viols: dict = {}
    stack = [[]]
    while stack:
        choices = stack.pop()
        w = prepare()
        if not w.ds["A"].ds_proc_tp.pending:
            raise HarnessError("batch scenario: the retry read of e is not pending")
        if not w.cmd_enabled(2):
            raise HarnessError("batch scenario: purge not enabled (e not announced at B)")
        w.apply(("issue-queued",))   # command for d
        w.apply(("issue-queued",))   # purge of e
        w.apply(("pass", "A", choices))
        runs += 1
        for i in range(len(choices), len(w.wait_options)):
            for alt in range(1, w.wait_options[i]):
                stack.append(choices + [0] * (i - len(choices)) + [alt])
        v = list(w.viol) or build_after(w)
        for (m, c, msg_) in v:
            viols.setdefault((m, c), (msg_, {"batch": True, "choices": choices}))
    r2, v2 = batch_late_payload()
    return runs + r2, [(m, c, msg_, rp) for (m, c), (msg_, rp) in viols.items()] + v2


SCENARIOS["T,T'(d);purge(d)@B;T(e)"] = {
    "initial": [("A", "d"), ("A", "e")],
    "commands": [("transmit", "d", "A", "B", 0), ("transmit", "d", "A", "B", 1), ("purge", "d", "B"), ("transmit", "e", "A", "B", 2)],
    "purge_guard": {"2": "after-announcement"},
    "expect": [("not-held", "d", "B"), ("held", "e", "B"), ("announced", "e", "B", 1, 1), ("announced", "d", "B", 1, 1)]}
SCENARIOS["T,T'(d);purge(d)@B;T(e:B>A)"] = {
    "initial": [("A", "d"), ("B", "e")],
    "commands": [("transmit", "d", "A", "B", 0), ("transmit", "d", "A", "B", 1), ("purge", "d", "B"), ("transmit", "e", "B", "A", 2)],
    "purge_guard": {"2": "after-announcement"},
    "expect": [("not-held", "d", "B"), ("held", "e", "A"), ("announced", "e", "A", 1, 1), ("announced", "d", "B", 1, 1)]}


def batch_late_payload() -> tuple[int, list]:
    """Second batch: d is sent to B by two commands (a redundant transfer); the first payload is stored and announced, d
    is purged at B, and the second payload -- still on its way -- reaches B's loop in ONE batch together with another
    frame: the payload of e (A->B), or the controller's command to send e from B to A (which nobody would repeat), in
    both orders. The late payload must be discarded, and e must be stored and announced at its target."""
    out: dict = {}
    runs = 0
    for late_first, variant in ((True, "payload"), (False, "payload"), (True, "command"), (False, "command")):
        sc = SCENARIOS["T,T'(d);purge(d)@B;T(e)" if variant == "payload" else "T,T'(d);purge(d)@B;T(e:B>A)"]
        w = build(sc, 0, [], 0)

        def to_b():
            return [k for k, i in enumerate(w.net.deliverable()) if w.net.flight[i][0] == "d.B"]

        def idx_to(addr, nth=0):
            ks = [k for k, i in enumerate(w.net.deliverable()) if w.net.flight[i][0] == addr]
            if len(ks) <= nth:
                raise HarnessError(f"late-payload batch: no frame #{nth} in flight to {addr}: {[f[0] for f in w.net.flight]}")
            return ks[nth]

        def settle_except_b():
            while True:
                ks = [k for k, i in enumerate(w.net.deliverable()) if w.net.flight[i][0] != "d.B"]
                if not ks:
                    return
                w.apply(("deliver", ks[0]))

        w.apply(("issue",))                      # T(d) #0
        w.apply(("deliver", idx_to("d.A")))
        w.apply(("complete", "A", 0))
        w.apply(("deliver", idx_to("d.B")))      # payload #0 arrives at B
        w.apply(("complete", "B", 0))            # stored, announced
        settle_except_b()
        w.apply(("issue",))                      # T'(d) #1
        w.apply(("deliver", idx_to("d.A")))
        w.apply(("complete", "A", 0))            # payload #1 on the wire, it will be late
        settle_except_b()
        if len(to_b()) != 1 or not w.cmd_enabled(2):
            raise HarnessError(f"late-payload batch: expected exactly the second payload in flight to B and the purge enabled ({len(to_b())}, {w.cmd_enabled(2)})")
        w.apply(("issue",))                      # purge d@B: its frame is behind the late payload on another connection
        if len(to_b()) == 2:
            w.apply(("deliver", idx_to("d.B", 1)))   # ... and overtakes it
        settle_except_b()
        if variant == "payload":
            w.apply(("issue",))                  # T(e: A->B)
            w.apply(("deliver", idx_to("d.A")))
            w.apply(("complete", "A", 0))        # payload of e on the wire
            settle_except_b()
            if len(to_b()) != 2:
                raise HarnessError(f"late-payload batch: expected the late payload of d and the payload of e in flight to B, found {len(to_b())}")
            for nth in ([0, 0] if late_first else [1, 0]):
                w.apply(("queue", idx_to("d.B", nth)))
        elif late_first:
            w.apply(("queue", idx_to("d.B", 0)))
            w.apply(("issue-queued",))           # T(e: B->A): the command lands in B's queue behind the late payload
        else:
            w.apply(("issue-queued",))
            w.apply(("queue", idx_to("d.B", 0)))
        w.apply(("pass", "B", []))
        runs += 1
        v = list(w.viol) or build_after(w)
        for (m, c, msg_) in v:
            out.setdefault((m, c), (msg_, {"batch": "late-payload", "late_first": late_first, "variant": variant}))
    return runs, [(m, c, msg_, rp) for (m, c), (msg_, rp) in out.items()]


for _n in ("T(d),T(e);purge(e)@A", "T(d),T(e)"):
    SCENARIOS[_n + " siblings"] = dict(SCENARIOS[_n], siblings=True)


def build_after(w: "World") -> list:
    return w.closure()
