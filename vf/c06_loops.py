"""C06(b): the two real receive loops -- Bridge.recv_events and Executor.recv_loop -- stepped one pass at a time over the
fake zmq with an in-flight stage, under frame drops/duplications (BFS, fault budget F). Checks that each loop really
drives acknowledgement, duplicate suppression and retries: every message sent through the acknowledged layer is handed
to the other application exactly once, or the failure is reported -- never silently lost."""
from __future__ import annotations

import pickle
import types

import cascade.executor.bridge as bridge_mod
import cascade.executor.comms as comms
import cascade.executor.executor as executor_mod
import cascade.executor.msg as msg
from cascade.executor.runner.entrypoint import worker_address
from cascade.executor.serde import des_message, ser_message
from cascade.low.core import DatasetId, JobInstance, WorkerId

from vf import bfs, common
from vf.fakezmq import Net

MAX_RETRIES = 3


class Yield(BaseException):
    pass


class InertProc:
    exitcode = None
    pid = 1

    def __init__(self, *a, **k):
        pass

    def start(self):
        pass

    def join(self, *a):
        pass

    def is_alive(self):
        return False

    def kill(self):
        pass


class World:
    def __init__(self, faults: int):
        for mod, names in ((comms, ("zmq", "get_context", "time", "max_retries_per_message")), (bridge_mod, ("time",)),
                           (executor_mod, ("get_context", "atexit", "shm_api"))):
            for n in names:
                common.seam(mod, n)
        self.net = Net(staged=True)
        self.net.local_prefixes = ("ipc://",)  # executor -> worker forwards are local and not part of the acknowledged layer
        self.clock = [10_000_000_000_000]
        vt = types.SimpleNamespace(time_ns=lambda: self.clock[0], time=lambda: self.clock[0] / 1e9)
        comms.zmq = self.net
        comms.get_context = lambda: self.net.Context()
        comms.time = vt
        bridge_mod.time = vt
        comms.max_retries_per_message = MAX_RETRIES
        executor_mod.get_context = lambda kind: types.SimpleNamespace(Process=InertProc)
        executor_mod.atexit = types.SimpleNamespace(register=lambda f: None)
        # the executor publishes its shm port through the environment: inert here (and independent of what another
        # harness in the same process may have installed)
        executor_mod.shm_api.publish_client_port = lambda port: None
        self.allow_timeout = False
        self.net.block = self._block
        self.faults_left = faults
        job = JobInstance(tasks={}, edges=[])
        self.ex = executor_mod.Executor(job, "inproc://ctrl", 1, "h0", 1000, None)
        self.w = WorkerId("h0", "w0")
        self.ex.workers[self.w] = InertProc()
        self.ex.to_controller(self.ex.registration)
        # registration reaches the controller before the Bridge is constructed (its __init__ blocks on it)
        while self.net.flight:
            self.net.deliver(0)
        self.br = bridge_mod.Bridge("inproc://ctrl", 1)
        self.br.shutdown = lambda: self.ctrl_failed.append("shutdown")
        while self.net.flight:  # the Ack of the registration
            self.net.deliver(0)
        self._exec_pass()
        self.sent = {"ctrl": 0, "exec": 0}
        self.ctrl_events: list = []
        self.ctrl_failed: list = []
        self.exec_failed = False
        self.worker_died = False
        self.viol: list = []

    def _block(self, cond, timeout):
        if self.allow_timeout and timeout is not None:
            self.allow_timeout = False
            self.clock[0] += int(timeout) * 1_000_000
            return
        raise Yield()

    # ---- messages
    def ctrl_msg(self, i):
        return msg.TaskSequence(worker=self.w, tasks=[f"t{i}"], publish=set())

    def exec_msg(self, i):
        return msg.DatasetPublished(origin=self.w, ds=DatasetId(f"t{i}", "0"), transmit_idx=None)

    def forwarded_to_worker(self):
        return [des_message(fr[0]) for fr in self.net.queues[worker_address(self.w)]]

    # ---- events
    def enabled(self, nmsgs: int):
        evs = []
        if self.sent["ctrl"] < nmsgs and not self.ctrl_failed:
            evs.append(("ctrl_send",))
        if self.sent["exec"] < nmsgs and not self.exec_failed:
            evs.append(("exec_send",))
        for k in range(len(self.net.deliverable())):
            evs.append(("deliver", k))
            if self.faults_left > 0:
                evs.append(("drop", k))
                evs.append(("dup", k))
        if not self.worker_died and not self.exec_failed:
            evs.append(("worker_dies",))  # the executor's next healthcheck fails: it reports ExecutorFailure and terminates
        if not self.ctrl_failed:
            evs.append(("ctrl_pass",))
        if not self.exec_failed:
            evs.append(("exec_pass",))
        return evs

    def apply(self, ev):
        k = ev[0]
        if k == "ctrl_send":
            self.br.task_sequence(self.ctrl_msg(self.sent["ctrl"]))
            self.sent["ctrl"] += 1
        elif k == "exec_send":
            # a worker reports a publication to its executor (plain callback, as memory.py does)
            self.net.queues[self.ex.mlistener.address].append([ser_message(self.exec_msg(self.sent["exec"]))])
            self.sent["exec"] += 1
        elif k in ("deliver", "drop", "dup"):
            i = self.net.deliverable()[ev[1]]
            if k == "deliver":
                self.net.deliver(i)
            elif k == "drop":
                self.net.drop(i)
                self.faults_left -= 1
            else:
                self.net.duplicate(i)
                self.faults_left -= 1
        elif k == "worker_dies":
            self.worker_died = True
            self.ex.workers[self.w].exitcode = 1
        elif k == "ctrl_pass":
            self._ctrl_pass()
        elif k == "exec_pass":
            self._exec_pass()
        fw = self.forwarded_to_worker()
        for m in fw:
            if fw.count(m) > 1:
                self.viol.append(("handed_up_twice", "executor forwarded a controller message to the worker twice", f"{m}"))
                break
        for m in self.ctrl_events:
            if self.ctrl_events.count(m) > 1:
                self.viol.append(("handed_up_twice", "controller received an executor event twice", f"{m}"))
                break

    def _ctrl_pass(self):
        """Bridge.recv_events until it would block a second time (one timeout elapses if nothing is queued)"""
        self.allow_timeout = True
        try:
            evs = self.br.recv_events()
            self.ctrl_events += evs
        except Yield:
            pass
        except ValueError as e:
            self.ctrl_failed.append(str(e)[:80])
        finally:
            self.allow_timeout = False

    def _exec_pass(self):
        """one pass of Executor.recv_loop (the fake recv_messages flips `terminating` so the loop body runs once)"""
        ex = self.ex
        real = ex.mlistener.recv_messages

        def once(timeout_ms=None):
            ex.terminating = True
            return real(timeout_ms)

        ex.mlistener.recv_messages = once
        ex.terminating = False
        self.allow_timeout = True
        before = len(self.net.sent_log)
        try:
            ex.recv_loop()
        except Yield:
            pass
        finally:
            self.allow_timeout = False
            ex.mlistener.recv_messages = real
        for addr, fr in self.net.sent_log[before:]:
            try:
                m = des_message(fr[-1])
            except Exception:
                continue
            if isinstance(m, msg.ExecutorFailure):
                self.exec_failed = True
        ex.terminating = False

    def canon(self):
        now = self.clock[0]

        def sender(S):
            return tuple(sorted((i, r.remaining, r.at < now - S.resend_grace) for i, r in S.inflight.items()))

        def frames(fr):
            return tuple(repr(pickle.loads(f))[:90] for f in fr)

        order = {}
        ranks = []
        for (_, _, tag) in self.net.flight:
            order.setdefault(tag, len(order))
            ranks.append(order[tag])
        hb = self.ex.heartbeat_watcher
        return (
            tuple(self.sent.items()), self.faults_left, sender(self.br.sender), sender(self.ex.sender),
            tuple(sorted(map(repr, self.br.mlistener.acked))), tuple(sorted(map(repr, self.ex.mlistener.acked))),
            tuple((a, frames(fr), r) for (a, fr, _), r in zip(self.net.flight, ranks)),
            tuple((a, tuple(frames(fr) for fr in q)) for a, q in sorted(self.net.queues.items()) if q),
            tuple(map(repr, self.ctrl_events)), tuple(self.ctrl_failed), self.exec_failed, self.worker_died,
            (now - hb.step_time_ms * 1_000_000) > hb.grace_ms * 1_000_000,
        )

    def closure(self):
        """no more faults: frames arrive, both loops keep running; every message must end up delivered or reported"""
        for _ in range(6 * (MAX_RETRIES + 3)):
            while self.net.flight:
                self.net.deliver(0)
            if not self.ctrl_failed:
                self._ctrl_pass()
            if not self.exec_failed:
                self._exec_pass()
        out = []
        if self.exec_failed and not self.ctrl_failed:
            out.append(("failure_report_lost", "ExecutorFailure lost once is never re-sent (the executor terminates right after sending it): the controller keeps waiting for an executor that has gone",
                        f"executor inflight {list(self.ex.sender.inflight)}"))
        fw = self.forwarded_to_worker()
        for i in range(self.sent["ctrl"]):
            n = fw.count(self.ctrl_msg(i))
            if n > 1:
                out.append(("handed_up_twice", "executor forwarded a controller message to the worker twice", f"{self.ctrl_msg(i)}"))
            if n == 0 and not self.ctrl_failed and not self.exec_failed:
                out.append(("lost_silently", "controller->executor message neither delivered nor reported", f"{self.ctrl_msg(i)}"))
        for i in range(self.sent["exec"]):
            n = self.ctrl_events.count(self.exec_msg(i))
            if n > 1:
                out.append(("handed_up_twice", "controller received an executor event twice", f"{self.exec_msg(i)}"))
            if n == 0 and not self.ctrl_failed and not self.exec_failed:
                unacked = dict(self.ex.sender.inflight)
                cause = "executor->controller message neither delivered nor reported" + (" (executor never retries its unconfirmed sends)" if unacked else "")
                out.append(("lost_silently", cause, f"{self.exec_msg(i)}; executor inflight {list(unacked)}"))
        return out


def shutdown_case(drop: int | None) -> dict:
    """The controller's last exchange: the real Bridge.shutdown() against the real Executor.recv_loop, every frame
    delivered except the drop-th frame put on the wire after shutdown() began (None: no loss). Whenever the bridge
    would block, all frames in flight arrive, the executor's loop runs one pass and the timeout elapses."""
    w = World(0)
    n0 = len(w.net.sent_log)
    state = {"nested": False, "dropped": False, "blocks": 0}

    def flush():
        while w.net.flight:
            nth = None
            if drop is not None and not state["dropped"]:
                # frames are numbered in the order they were put on the wire since shutdown() began
                sent_since = len(w.net.sent_log) - n0
                inflight = len(w.net.flight)
                first_idx = sent_since - inflight
                if first_idx <= drop < sent_since:
                    nth = drop - first_idx
            if nth is not None:
                w.net.drop(nth)
                state["dropped"] = True
            else:
                w.net.deliver(0)

    def hook(cond, timeout):
        if state["nested"]:
            if w.allow_timeout and timeout is not None:
                w.allow_timeout = False
                w.clock[0] += int(timeout) * 1_000_000
                return
            raise Yield()
        state["blocks"] += 1
        if state["blocks"] > 2000:
            raise common.HarnessError("Bridge.shutdown does not terminate in the stepped world")
        flush()
        state["nested"] = True
        try:
            if not w.exec_failed and not w.exec_done:
                w._exec_pass()
        finally:
            state["nested"] = False
        flush()
        w.clock[0] += int(timeout if timeout is not None else 1000) * 1_000_000

    w.exec_done = False
    w.net.block = hook
    real_terminate = w.ex.terminate

    def terminate():
        w.exec_done = True
        real_terminate()

    w.ex.terminate = terminate
    t0 = w.clock[0]
    err = None
    try:
        bridge_mod.Bridge.shutdown(w.br)
    except Exception as e:  # noqa
        err = repr(e)
    frames = len(w.net.sent_log) - n0
    return {"drop": drop, "frames": frames, "executor_told": w.exec_done, "hosts_left": sorted(w.br.sender.hosts), "virtual_s": (w.clock[0] - t0) / 1e9,
            "error": err, "dropped": state["dropped"]}


def shutdown_exchange() -> tuple[list, int]:
    base = shutdown_case(None)
    out = []
    if base["error"] or not base["executor_told"]:
        out.append(("shutdown_not_delivered", "fault-free shutdown exchange did not reach the executor", f"{base}", {"part": "shutdown", "drop": None}))
        return out, 1
    n = 1
    for i in range(base["frames"]):
        r = shutdown_case(i)
        n += 1
        if not r["dropped"]:
            continue
        if r["error"]:
            out.append(("shutdown_raised", "Bridge.shutdown raised after one lost frame", f"{r}", {"part": "shutdown", "drop": i}))
        elif not r["executor_told"]:
            out.append(("lost_silently", "ExecutorShutdown lost once is never re-sent: the executor keeps running after the controller has gone",
                        f"{r}", {"part": "shutdown", "drop": i}))
    return out, n


def build(cfg, hist):
    w = World(cfg["faults"])
    for ev in hist:
        w.apply(tuple(ev))
    return w


def run(ctx):
    import time

    tot_s = tot_t = 0
    summary = []
    for (nmsgs, faults, depth) in ctx.pick([(1, 1, 9)], [(1, 2, 12), (2, 1, 10)]):
        cfg = {"faults": faults, "nmsgs": nmsgs}

        def expand(hist, cfg=cfg, nmsgs=nmsgs, depth=depth):
            w = build(cfg, hist)
            out = []
            # passes are always enabled here, so there are no terminal states: the fair closure is evaluated where no
            # frame is in flight (quiescent network) and at the depth bound
            if not w.net.flight or len(hist) >= depth - 1:
                cl = build(cfg, hist).closure()
                if cl:
                    out.append((None, None, cl))
            for ev in w.enabled(nmsgs):
                q = build(cfg, hist + [ev])
                out.append((ev, None if q.viol else q.canon(), list(q.viol)))
            return out

        r = bfs.bfs(expand, build(cfg, []).canon(), depth, deadline=time.time() + ctx.pick(900, 600))
        tot_s += r["states"]
        tot_t += r["transitions"]
        summary.append({"messages_per_direction": nmsgs, "fault_budget": faults, "depth_completed": r["depth"], "closed": r["closed"], "states": r["states"], "capped": r["capped"]})
        for (mon, cause), (m, hist) in r["violations"].items():
            ctx.add_violation(common.Violation({"monitor": mon, "cause": "loops: " + cause}, f"[loops {cfg}] {m}; history={hist}", {"part": "loops", "cfg": cfg, "history": hist}))
        for h in r["samples"][:1]:
            ctx.sample({"part": "loops", "cfg": cfg, "history": h})
    viols, n = shutdown_exchange()
    for (mon, cause, m, rp) in viols:
        ctx.add_violation(common.Violation({"monitor": mon, "cause": "loops: " + cause}, m, rp))
    summary.append({"shutdown_exchange_single_frame_losses": n})
    return {"states": tot_s, "transitions": tot_t + n, "summary": summary}


def replay(ctx, data):
    if data.get("part") == "shutdown":
        viols, _ = shutdown_exchange()
        return [common.Violation({"monitor": m, "cause": "loops: " + c}, msg_, rp) for (m, c, msg_, rp) in viols if rp == data]
    w = build(data["cfg"], data["history"])
    v = list(w.viol) or build(data["cfg"], data["history"]).closure()
    return [common.Violation({"monitor": m, "cause": "loops: " + c}, msg_, data) for (m, c, msg_) in v]
