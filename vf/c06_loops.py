"""placeholder until the stepped Bridge/Executor loops are built"""


def run(ctx):
    return {"states": 0, "transitions": 0, "summary": "not built yet"}


def replay(ctx, data):
    return []
