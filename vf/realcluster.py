"""Real multi-process validation run for C05 (DESIGN C05 'Validation on real processes').
Run as a script in its own session:  python -m vf.realcluster '<json>'   -> prints RESULT<json>
The json gives {"job": kind, "hosts": h, "workers": w, "fault": {...}|null, "deadline_s": 60}.
Real Executor processes (fork), real zmq over tcp loopback, real /dev/shm, real Bridge + controller in this process."""
from __future__ import annotations

import json
import os
import signal
import sys
import threading
import time


def main():
    spec = json.loads(sys.argv[1])
    sys.path.insert(0, os.environ.get("VF_REPO_SRC", "/repo/src"))
    import logging

    logging.disable(logging.CRITICAL)
    from multiprocessing import Process

    import cascade.executor.config as xcfg

    xcfg.logging_config["loggers"][""]["level"] = "CRITICAL"
    for k in xcfg.logging_config["loggers"]:
        xcfg.logging_config["loggers"][k]["level"] = "CRITICAL"
    from cascade.controller.impl import run
    from cascade.executor.bridge import Bridge
    from cascade.executor.executor import Executor
    from cascade.scheduler.graph import precompute

    from vf.checks import c05
    from vf.jobs import sequential_eval

    c05.REAL[0] = True
    if spec.get("fault"):
        c05.PLAN.update(spec["fault"])
    job = c05.make_job(spec["job"])
    pre = precompute(job)
    pid = os.getpid()
    base = 21000 + (pid % 1500) * 24
    ctrl = f"tcp://localhost:{base}"
    hostnames = [f"r{pid}h{i}" for i in range(spec["hosts"])]

    def launch(i):
        # executors and everything they spawn write to /dev/null: a helper that never exits must not keep the result
        # pipe of this run open
        dn = os.open(os.devnull, os.O_WRONLY)
        os.dup2(dn, 1)
        os.dup2(dn, 2)
        ex = Executor(job, ctrl, spec["workers"], hostnames[i], base + 1 + i * 10)
        ex.register()
        ex.recv_loop()

    procs = [Process(target=launch, args=(i,)) for i in range(spec["hosts"])]
    for p in procs:
        p.start()
    out = {"outcome": None, "exception": None, "wrong": None}
    done = threading.Event()

    def body():
        try:
            b = Bridge(ctrl, spec["hosts"])
            st = run(job, b, pre)
            exp = sequential_eval(c05.make_job(spec["job"]))
            out["outcome"] = "returned"
            out["wrong"] = [repr(k) for k in job.ext_outputs if st.outputs.get(k) != exp[k]] or None
        except Exception as e:
            out["outcome"] = "raised"
            out["exception"] = f"{type(e).__name__}: {str(e)[:200]}"
        finally:
            done.set()

    t0 = time.time()
    th = threading.Thread(target=body, daemon=True)
    th.start()
    if not done.wait(spec.get("deadline_s", 60)):
        out["outcome"] = "hang"
    out["wall_s"] = round(time.time() - t0, 1)
    # executors must exit on their own
    for p in procs:
        p.join(15)
    out["executors_alive"] = [p.pid for p in procs if p.is_alive()]
    time.sleep(0.5)
    out["shm_left"] = sorted(f for f in os.listdir("/dev/shm") if any(f.startswith(f"sCasc{h}"[:12]) for h in hostnames))
    out["hostnames"] = hostnames
    print("RESULT" + json.dumps(out), flush=True)
    for p in procs:
        if p.is_alive():
            p.kill()
    # this run is the leader of its own session: take every remaining descendant (workers, data and shm servers) down
    signal.signal(signal.SIGTERM, signal.SIG_IGN)
    try:
        os.killpg(os.getpgid(0), signal.SIGTERM)
        time.sleep(0.3)
    except OSError:
        pass
    sys.stdout.flush()
    os.killpg(os.getpgid(0), signal.SIGKILL)


if __name__ == "__main__":
    main()
