"""vcluster: the whole cascade runtime in ONE process (DESIGN 2.3).

Every OS process of a real deployment (controller, per-host executor, workers, data server, shm server) is a *virtual
process*: a Python thread running the unmodified entry function that executes only while it holds the baton. Every
blocking primitive is a seam handing the baton back to the scheduler: fake zmq (vf.fakezmq.Net), fake UDP sockets for
the shm protocol, virtual time, a multiprocessing context whose Process is a virtual process, inline pools, and a fake
SharedMemory namespace that doubles as ground truth for segments left behind.

A virtual process can be killed: it is resumed with VKilled (a BaseException) that unwinds it, and every seam call
from that thread is a no-op from then on, so no finally/with block of a "SIGKILLed" process has an external effect.
"""
from __future__ import annotations

import collections
import threading
import types
from typing import Any, Callable

import cascade.controller.report as report_mod
import cascade.executor.bridge as bridge_mod
import cascade.executor.comms as comms
import cascade.executor.data_server as ds_mod
import cascade.executor.executor as executor_mod
import cascade.executor.runner.entrypoint as entrypoint_mod
import cascade.executor.runner.memory as memory_mod
import cascade.shm.api as shm_api
import cascade.shm.client as shm_client
import cascade.shm.dataset as shm_dataset
import cascade.shm.disk as shm_disk
import cascade.shm.server as shm_server

from vf.common import HarnessError, InlinePool, seam
from vf.fakezmq import Net
from vf.shmworld import ShmNamespace

T0 = 1_000_000_000_000


class VKilled(BaseException):
    pass


class VProc:
    def __init__(self, sched: "Sched", name: str, target: Callable, args=(), kwargs=None, env=None, kind: str = "proc"):
        self.sched, self.name, self.target, self.args, self.kwargs = sched, name, target, args, kwargs or {}
        self.env = dict(env or {})
        self.kind = kind
        self.sem = threading.Semaphore(0)
        self.started = self.thread_started = self.dead = self.killed = False
        self.exitcode: int | None = None
        self.cond: Callable | None = None
        self.deadline: int | None = None
        self.timed_out = False
        sched.npid += 1
        self.pid = sched.npid
        self.exc: BaseException | None = None
        self.thread = threading.Thread(target=self._body, daemon=True, name=name)
        self.on_exit: list[Callable] = []
        self.sig_handlers: dict = {}      # signum -> handler registered by this virtual process
        self.pending_signals: list = []   # signums delivered but not handled yet

    def _body(self):
        self.sem.acquire()
        try:
            if self.killed:
                raise VKilled()
            self.target(*self.args, **self.kwargs)
            self.exitcode = 0
        except VKilled:
            self.exitcode = -9
        except SystemExit as e:
            self.exitcode = e.code if isinstance(e.code, int) else (0 if e.code is None else 1)
        except BaseException as e:  # noqa
            self.exitcode = 1
            self.exc = e
        self.dead = True
        for f in self.on_exit:
            f()
        self.sched.main_sem.release()

    # ---- multiprocessing.Process API
    def start(self):
        cur = self.sched.current
        if cur is not None:
            if cur.killed:
                return
            self.env = dict(cur.env)
        self.started = True
        self.sched.procs.append(self)
        self.thread.start()
        self.thread_started = True

    def join(self, timeout=None):
        if self.sched.current is not None and self.sched.current.killed:
            raise VKilled()
        self.sched.block(lambda: self.dead or not self.started, None if timeout is None else self.sched.now_ns + int(timeout * 1e9))

    def is_alive(self):
        return self.started and not self.dead

    def kill(self):
        cur = self.sched.current
        if cur is not None and cur.killed:
            return
        self.sched.kill(self)

    terminate = kill


class Sched:
    def __init__(self):
        self.now_ns = T0
        self.procs: list[VProc] = []
        self.current: VProc | None = None
        self.main_sem = threading.Semaphore(0)
        self.steps = 0
        self.npid = 1000
        self.trace: list = []
        self.chooser: Callable | None = None  # (ready procs) -> index ; default 0
        self.step_hook: Callable | None = None

    def spawn(self, name, target, args=(), kwargs=None, env=None, kind="proc") -> VProc:
        return VProc(self, name, target, args, kwargs, env, kind)

    def block(self, cond, deadline_ns=None) -> bool:
        """called from a vproc thread: give the baton back and wait until cond() holds or the deadline passes"""
        p = self.current
        if p is None:
            raise HarnessError("blocking seam called outside a virtual process")
        if p.killed:
            raise VKilled()
        while True:
            p.cond, p.deadline, p.timed_out = cond, deadline_ns, False
            self.main_sem.release()
            p.sem.acquire()
            if p.killed:
                raise VKilled()
            if p.pending_signals:
                # the handler runs in the interrupted process; the interrupted call then continues (PEP 475)
                signum = p.pending_signals.pop(0)
                p.sig_handlers[signum](signum, None)
                if cond():
                    return True
                if getattr(p, "interrupt_check", None) is not None and p.interrupt_check():
                    return False
                continue
            return not p.timed_out

    def kill(self, p: VProc):
        if p.dead or not p.started:
            return
        p.killed = True
        p.cond, p.deadline = None, None  # runnable: wakes up and unwinds

    def term(self, p: VProc, signum: int = 15):
        """SIGTERM: the handler the process registered runs at its next scheduling point; without one the process dies"""
        if p.dead or not p.started:
            return
        if signum in p.sig_handlers:
            p.pending_signals.append(signum)
            p.cond, p.deadline = None, None
        else:
            self.kill(p)

    def alive(self):
        return [p for p in self.procs if p.started and not p.dead]

    def _resume(self, p: VProc):
        self.current = p
        p.cond, p.deadline = None, None
        p.sem.release()
        if not self.main_sem.acquire(timeout=60):
            raise HarnessError(f"watchdog: virtual process {p.name} did not yield within 60 s (un-virtualised blocking call?)")
        self.current = None

    def run(self, until: Callable[[], bool], max_steps: int, horizon_ns: int | None = None) -> str:
        while True:
            if until():
                return "done"
            alive = self.alive()
            if not alive:
                return "all-exited"
            ready = [p for p in alive if p.killed or p.cond is None or p.cond()]
            if ready:
                idx = self.chooser(ready) if (self.chooser and len(ready) > 1) else 0
                p = ready[idx]
            else:
                timed = [p for p in alive if p.deadline is not None]
                if not timed:
                    return "deadlock"
                p = min(timed, key=lambda q: q.deadline)
                self.now_ns = max(self.now_ns, p.deadline)
                if horizon_ns is not None and self.now_ns > horizon_ns:
                    return "horizon"
                p.timed_out = True
            self.steps += 1
            if self.steps > max_steps:
                return "step-cap"
            if self.step_hook is not None:
                self.step_hook(self.steps, p)
            self._resume(p)

    def shutdown(self):
        """end of an execution: unwind every remaining virtual process so that no thread is left behind"""
        for _ in range(10_000):
            alive = self.alive()
            if not alive:
                break
            p = alive[0]
            p.killed = True
            self._resume(p)
        for p in self.procs:
            if p.thread_started:
                p.thread.join(timeout=5)


class Cluster:
    """installs the seams for one execution and gives access to the pieces (net, shm namespace, scheduler)"""

    def __init__(self):
        from vf import simcluster

        simcluster.uninstall_seams()  # the worker/controller plumbing must be the real one here
        S = self.sched = Sched()
        self.net = Net()
        self.ns = ShmNamespace()
        self.udp_servers: dict[int, Any] = {}
        net = self.net

        def zblock(cond, timeout_ms):
            S.block(cond, None if timeout_ms is None else S.now_ns + int(timeout_ms * 1e6))

        net.block = zblock
        real_send = net.Socket.send_multipart

        def guarded_send(sock, frames, *a, **k):
            if S.current is not None and S.current.killed:
                return
            return real_send(sock, frames, *a, **k)

        net.Socket.send_multipart = guarded_send
        vt = types.SimpleNamespace(
            time_ns=lambda: S.now_ns, time=lambda: S.now_ns / 1e9,
            sleep=lambda sec: S.block(lambda: False, S.now_ns + int(sec * 1e9)),
        )
        self.vtime = vt
        for mod, names in (
            (comms, ("zmq", "get_context", "time")), (bridge_mod, ("time",)), (report_mod, ("zmq", "get_context")),
            (entrypoint_mod, ("zmq",)), (ds_mod, ("ThreadPoolExecutor", "time_ns")),
            (executor_mod, ("get_context", "atexit", "socket")),
            (shm_client, ("socket", "time", "SharedMemory", "multiprocessing")), (shm_server, ("socket", "signal")),
            (shm_api, ("publish_client_port", "get_client_port")),
            (shm_dataset, ("SharedMemory", "get_capacity", "disk")), (shm_disk, ("SharedMemory",)),
        ):
            for n in names:
                seam(mod, n)
        import logging.config

        logging.config.dictConfig = lambda *a, **k: None
        comms.zmq = entrypoint_mod.zmq = report_mod.zmq = net
        comms.get_context = report_mod.get_context = lambda: net.Context()
        comms.time = bridge_mod.time = shm_client.time = vt
        ds_mod.time_ns = vt.time_ns
        ds_mod.ThreadPoolExecutor = InlinePool
        executor_mod.atexit = types.SimpleNamespace(register=lambda f: None)
        cl = self

        class MPCtx:
            def Process(self, target=None, args=(), kwargs=None):
                name = getattr(target, "__name__", "proc")
                module = getattr(target, "__module__", "")
                kind = "shm" if module.startswith("cascade.shm") else "worker" if module.endswith("runner.entrypoint") else "dataserver" if module.endswith("data_server") else name
                if kind == "worker":
                    name = "worker:" + repr((kwargs or {}).get("runnerContext").workerId)
                elif kind == "dataserver":
                    name = "dataserver:" + args[2]
                elif kind == "shm":
                    name = "shm:" + str(args[0])
                p = S.spawn(name, target, args, kwargs, kind=kind)
                if kind == "shm":
                    port = args[0]
                    p.on_exit.append(lambda: cl.udp_servers.pop(port, None))
                return p

        executor_mod.get_context = lambda kind: MPCtx()
        shm_api.publish_client_port = lambda port: S.current.env.__setitem__("CASCADE_SHM_PORT", str(port))
        shm_api.get_client_port = lambda: int(S.current.env["CASCADE_SHM_PORT"])
        def vsignal(signum, handler):
            if S.current is not None:
                S.current.sig_handlers[signum] = handler

        shm_server.signal = types.SimpleNamespace(signal=vsignal, SIGINT=2, SIGTERM=15)
        shm_dataset.get_capacity = lambda: 1 << 30
        shm_dataset.disk = types.SimpleNamespace(Disk=lambda: types.SimpleNamespace(atexit=lambda: None))
        ns = self.ns
        real_shm = ns.SharedMemory

        class GuardedSharedMemory(real_shm):
            def unlink(self):
                if S.current is not None and S.current.killed:
                    return
                return real_shm.unlink(self)

        shm_dataset.SharedMemory = shm_client.SharedMemory = shm_disk.SharedMemory = GuardedSharedMemory
        shm_client.multiprocessing = types.SimpleNamespace(resource_tracker=types.SimpleNamespace(unregister=lambda *a: None))

        class UdpMod:
            AF_INET, SOCK_DGRAM = 2, 2

            @staticmethod
            def gethostname():
                return "vhost"

            class socket:
                def __init__(self, *a):
                    self.q: collections.deque = collections.deque()
                    self.port = None
                    self.peer = None
                    self.closed = False

                def bind(self, addr):
                    self.port = addr[1]
                    cl.udp_servers[self.port] = self

                def connect(self, addr):
                    self.peer = addr[1]

                def _dead(self):
                    return S.current is not None and S.current.killed

                def send(self, b):
                    if self._dead():
                        return
                    srv = cl.udp_servers.get(self.peer)
                    if srv is None:
                        raise ConnectionRefusedError()
                    srv.q.append((bytes(b), self))

                def recvfrom(self, n):
                    if self.closed:
                        raise OSError(9, "Bad file descriptor")
                    if not self.q:
                        cur = S.current
                        if cur is not None:
                            cur.interrupt_check = lambda: self.closed
                        try:
                            S.block(lambda: bool(self.q))
                        finally:
                            if cur is not None:
                                cur.interrupt_check = None
                        if self.closed:
                            raise OSError(9, "Bad file descriptor")
                    return self.q.popleft()

                def recv(self, n):
                    if not self.q:
                        # a connected UDP socket whose peer port closed gets ECONNREFUSED on loopback
                        S.block(lambda: bool(self.q) or self.peer not in cl.udp_servers)
                        if not self.q:
                            raise ConnectionRefusedError()
                    return self.q.popleft()

                def sendto(self, b, client):
                    if self._dead():
                        return
                    client.q.append(bytes(b))

                def close(self):
                    if self._dead():
                        return
                    self.closed = True
                    if self.port is not None:
                        cl.udp_servers.pop(self.port, None)

        shm_client.socket = shm_server.socket = executor_mod.socket = UdpMod

    # ---- helpers
    def procs_of(self, kind: str) -> list[VProc]:
        return [p for p in self.sched.procs if p.kind == kind]


def run_cluster(job, hosts: int, workers: int, *, max_steps: int = 400_000, horizon_s: float | None = None, on_cluster: Callable | None = None, gpu: dict | None = None,
                deviations: dict | None = None, wind_down_s: float = 30.0) -> dict:
    """One execution of the whole runtime. Returns a result dict (outputs or exception, leftovers, steps, virtual time)."""
    from cascade.controller.impl import run as ctrl_run
    from cascade.scheduler.graph import precompute

    cl = Cluster()
    S = cl.sched
    pre = precompute(job)
    result: dict = {"outputs": None, "exception": None, "ended": False}

    def controller():
        try:
            b = bridge_mod.Bridge("tcp://ctrl:1", hosts)
            result["run_started_step"] = S.steps
            st = ctrl_run(job, b, pre)
            result["outputs"] = dict(st.outputs)
        except VKilled:
            raise
        except Exception as e:
            result["exception"] = e
        finally:
            result["ended"] = True
            result["ended_at"] = S.now_ns

    def exec_main(i):
        ex = executor_mod.Executor(job, "tcp://ctrl:1", workers, f"h{i}", 100 + 10 * i, None)
        ex.register()
        ex.recv_loop()

    ctrl = S.spawn("controller", controller, kind="controller")
    ctrl.start()
    execs = []
    for i in range(hosts):
        env = {"CASCADE_GPU_COUNT": str((gpu or {}).get(i, 0))}
        p = S.spawn(f"executor:h{i}", exec_main, (i,), env=env, kind="executor")
        p.start()
        execs.append(p)
    if on_cluster is not None:
        on_cluster(cl)
    # schedule deviations: at choice point i (several processes ready) run the alt-th ready process instead of the first
    widths: list = []
    dev = deviations or {}

    def chooser(ready):
        i = len(widths)
        widths.append(len(ready))
        a = dev.get(i, 0)
        return a if a < len(ready) else 0

    S.chooser = chooser
    result["choice_widths"] = widths
    horizon = [None if horizon_s is None else S.now_ns + int(horizon_s * 1e9)]
    result["cluster"] = cl

    # phase 1: until the controller's run ended (or hang)
    end = S.run(lambda: result["ended"], max_steps, horizon[0])
    result["phase1"] = end
    # phase 2: executors wind down on their own (grace: 30 virtual seconds after the controller ended)
    if end == "done":
        end2 = S.run(lambda: all(p.dead for p in execs), max_steps, S.now_ns + int(wind_down_s * 1e9))
        result["phase2"] = end2
    result["steps"] = S.steps
    result["virtual_s"] = (S.now_ns - T0) / 1e9
    result["alive_after"] = [(p.name, p.kind) for p in S.alive() if p.kind != "controller" and not p.killed]
    result["segments_left"] = sorted(cl.ns.segments)
    result["proc_exc"] = [(p.name, repr(p.exc)) for p in S.procs if p.exc is not None]
    S.shutdown()
    return result
