"""C10 - lowering a graph to a job and running a task preserves what each node computes.
Bounded-exhaustive: hand-built and fluent-built graphs (every arity 0-3, every subset of positions fed by inputs, 0-2
keyword statics, multi-output parents with N in {1,2,3,9,10,11,12} outputs, generator bodies yielding N-2..N+2 values)
through the real graph2job, then every task through the real runner.run + Memory + serde over an in-process shm."""
from __future__ import annotations

import functools
import itertools

import cloudpickle
import numpy as np

import cascade.executor.runner.entrypoint as entrypoint
import cascade.executor.runner.runner as runner
from cascade.executor.msg import TaskSequence
from cascade.executor.runner.memory import Memory, ds2shmid
from cascade.low.core import DatasetId, WorkerId
from cascade.low.into import graph2job
from cascade.low.views import param_source
from earthkit.workflows import fluent
from earthkit.workflows.graph import Graph, Node

from vf import common, simcluster
from vf.jobs import gen_term, term

PROP = "C10"
NS = [1, 2, 3, 9, 10, 11, 12]
NS_THOROUGH = list(range(1, 14)) + [20, 101]


def gen_count(name: str, k: int, *args, **kwargs):
    """yields k values regardless of how many outputs were declared"""
    for i in range(k):
        yield (name, i, tuple(args), tuple(sorted(kwargs.items())))


def seq_count(container: str, name: str, k: int, *args, **kwargs):
    """returns k values as a list / tuple (not a generator) regardless of how many outputs were declared"""
    vals = [(name, i, tuple(args), tuple(sorted(kwargs.items()))) for i in range(k)]
    return vals if container == "list" else tuple(vals)


def gen_count_falsy(kind: str, k: int, *args, **kwargs):
    """yields k values that are None / falsy (a surplus or missing value must be noticed whatever the values are)"""
    falsy = [None, 0, "", False, (), 0.0]
    for i in range(k):
        yield None if kind == "none" else falsy[i % len(falsy)]


# ---------------------------------------------------------------- direct evaluation of a graph (the reference)
def eval_graph(g: Graph):
    vals: dict = {}

    def node(n: Node):
        if id(n) in vals:
            return vals[id(n)]
        func, args, kwargs = n.payload
        ins = {i: out(s) for i, s in n.inputs.items()}
        res = func(*[ins[a] if isinstance(a, str) and a in ins else a for a in args], **kwargs)
        if len(n.outputs) > 1:
            res = list(res)
        vals[id(n)] = res
        return res

    def out(o):
        v = node(o.parent)
        if len(o.parent.outputs) == 1:
            if o.name != o.parent.outputs[0]:
                raise KeyError(f"{o.parent.name} has no output {o.name!r}")
            return v
        return v[o.parent.outputs.index(o.name)]  # the i-th yielded value belongs to the i-th declared output

    res = {}
    for n in g.nodes():
        v = node(n)
        if len(n.outputs) == 1:
            res[(n.name, n.outputs[0])] = v
        else:
            for i, o in enumerate(n.outputs):
                res[(n.name, o)] = v[i] if i < len(v) else ("<missing>",)
    return res


def run_job(job):
    """every task through the real runner, in topological order; returns (values per dataset, failures per task)"""
    simcluster.install_seams()
    store: dict = {}
    simcluster._FACADE.cur = store
    w = WorkerId("h0", "w0")
    mem = Memory("sim", w)
    rc = entrypoint.RunnerContext(workerId=w, job=job, callback="sim", param_source=param_source(job.edges))
    deps = {t: set() for t in job.tasks}
    for e in job.edges:
        deps[e.sink_task].add(e.source.task)
    done, failures = [], {}
    pending = list(job.tasks)
    while pending:
        ready = [t for t in pending if deps[t] <= set(done)]
        if not ready:
            raise common.HarnessError("cycle in job")
        for t in ready:
            pending.remove(t)
            done.append(t)
            if any(d in failures for d in deps[t]):
                failures[t] = "upstream failed"
                continue
            ts = TaskSequence(worker=w, tasks=[t], publish=job.outputs_of(t))
            try:
                ec = rc.project(ts)
                runner.run(t, ec, mem)
                mem.flush()
            except Exception as e:
                failures[t] = repr(e)
    vals = {}
    for t, inst in job.tasks.items():
        for o in inst.definition.output_schema:
            k = ds2shmid(DatasetId(t, o))
            if k in store:
                vals[(t, o)] = cloudpickle.loads(store[k][0])
    try:
        mem.__exit__(None, None, None)
    except Exception:
        pass
    return vals, failures


def check_graph(tag: str, g: Graph, rp: dict, out: list, expect_fail: set = frozenset(), cause_hint: str = ""):
    nodes = list(g.nodes())
    try:
        job = graph2job(g)
    except Exception as e:
        out.append(({"monitor": "lowering_raised", "cause": f"{type(e).__name__}"}, f"{tag}: {e!r}"[:300], rp))
        return
    if set(job.tasks) != {n.name for n in nodes} or len(job.tasks) != len(nodes):
        out.append(({"monitor": "lowering_tasks", "cause": "tasks are not one per node"}, tag, rp))
        return
    want_edges = sorted((s.parent.name, s.name, n.name, list(n.payload[1]).index(i)) for n in nodes for i, s in n.inputs.items())
    got_edges = sorted((e.source.task, e.source.output, e.sink_task, e.sink_input_ps) for e in job.edges)
    if want_edges != got_edges:
        out.append(({"monitor": "lowering_edges", "cause": "edges are not one per input at the position of its name"}, f"{tag}: {got_edges} vs {want_edges}", rp))
        return
    vals, failures = run_job(job)
    if expect_fail:
        for t in expect_fail:
            if t not in failures:
                out.append(({"monitor": "miscount_not_reported", "cause": cause_hint}, f"{tag}: task {t} ran without error", rp))
        return
    if failures:
        out.append(({"monitor": "task_failed", "cause": "a well-formed node failed in the runner"}, f"{tag}: {failures}"[:400], rp))
        return
    ref = eval_graph(g)
    bad = [(k, vals.get(k), ref[k]) for k in ref if vals.get(k) != ref[k]]
    if bad:
        bad.sort(key=lambda b: repr(b[0]))
        multi_names = {n.name for n in nodes if len(n.outputs) > 1}
        bad_multi = [b for b in bad if b[0][0] in multi_names]
        downstream_of_multi = any(s.parent.name in multi_names for n in nodes for s in n.inputs.values())
        k, gv, rv = (bad_multi or bad)[0]
        multi = [n for n in nodes if len(n.outputs) > 1 and (n.name == k[0] or (not bad_multi and downstream_of_multi))]
        if multi:
            outs = multi[0].outputs
            cause = "multi-output node: yielded values bound to outputs in key-sorted instead of declared order" + (" (N >= 11 decimal names)" if all(o.isdigit() for o in outs) and len(outs) > 10 else " (declared names not in sorted order)" if outs != sorted(outs) else "")
        else:
            cause = "value differs from direct evaluation of the graph"
        out.append(({"monitor": "value_mismatch", "cause": cause}, f"{tag}: {len(bad)} datasets differ, e.g. {k}: stored {gv!r} expected {rv!r}"[:500], rp))


# ---------------------------------------------------------------- families
def fam_binding():
    """child with k positional slots, every subset fed by inputs, 0-2 keyword statics"""
    STATICS = ["sv", 7, None]  # a genuine static None must reach the callable like any other value
    for k in range(0, 4):
        for mask in range(1 << k):
            for nkw in range(3):
              for rot in range(3 if k else 1):
                def build(k=k, mask=mask, nkw=nkw, rot=rot):
                    parents = [Node(f"p{i}", payload=(functools.partial(term, f"p{i}"), [i], {})) for i in range(k)]
                    args, ins = [], {}
                    for i in range(k):
                        if mask >> i & 1:
                            args.append(f"in{i}")
                            ins[f"in{i}"] = parents[i]
                        else:
                            args.append(STATICS[(i + rot) % 3])
                    kwargs = {f"kw{j}": [j * 10, None][(j + rot) % 2] for j in range(nkw)}
                    c = Node("child", payload=(functools.partial(term, "child"), args, kwargs), **ins)
                    return Graph([c] + [p for i, p in enumerate(parents) if not mask >> i & 1])
                yield f"binding k={k} mask={mask:b} kw={nkw} rot={rot}", {"family": "binding", "k": k, "mask": mask, "nkw": nkw, "rot": rot}, build


def fam_binding_wide():
    """12 positional slots (positions >= 10 have two-digit keys), inputs at chosen positions, the input names being
    fluent's own (input0, input1, ...) in an order that differs from their positions"""
    for mask in (0b110000000101, 0b100000000000, 0b011111111111, 0b111111111111):
        for naming in ("by-position", "fluent-reversed"):
            def build(mask=mask, naming=naming):
                k = 12
                fed = [i for i in range(k) if mask >> i & 1]
                parents = {i: Node(f"p{i}", payload=(functools.partial(term, f"p{i}"), [i], {})) for i in fed}
                names = {i: (f"in{i}" if naming == "by-position" else f"input{len(fed) - 1 - j}") for j, i in enumerate(fed)}
                args = [names[i] if i in names else ("sv", 7, None)[i % 3] for i in range(k)]
                ins = {names[i]: parents[i] for i in fed}
                c = Node("child", payload=(functools.partial(term, "child"), args, {"kw0": 1}), **ins)
                return Graph([c])
            yield f"binding k=12 mask={mask:b} {naming}", {"family": "binding", "k": 12, "mask": mask, "naming": naming}, build


def fam_same_source():
    """one upstream output read at two (or three) positions of the same callable -- what `a.multiply(a)` builds --
    next to a second parent, for single- and multi-output parents"""
    for multi in (False, True):
        for layout in ("xx", "xyx", "xxy", "xxx"):
            def build(multi=multi, layout=layout):
                px = Node("px", outputs=["a", "b"] if multi else None, payload=(functools.partial(gen_term, "px", 2) if multi else functools.partial(term, "px"), ["s"], {}))
                py = Node("py", payload=(functools.partial(term, "py"), [1], {}))
                src = {"x": (px.get_output("b") if multi else px.get_output()), "y": py.get_output()}
                args = [f"in{i}" for i in range(len(layout))]
                ins = {f"in{i}": src[c] for i, c in enumerate(layout)}
                c = Node("child", payload=(functools.partial(term, "child"), args + ["tail"], {"kw0": 1}), **ins)
                return Graph([c])
            yield f"same-source {layout} multi={multi}", {"family": "binding", "k": len(layout), "mask": 1, "layout": layout, "multi": multi}, build


def outnames(N, style):
    if style == "decimal":
        return [str(i) for i in range(N)]
    if style == "reversed-letters":
        return [chr(ord("a") + N - 1 - i) for i in range(N)]
    return [f"o{i:02d}" for i in range(N)]  # padded: sorted order == declared order


def fam_multi():
    for N in NS:
        for style in ("decimal", "padded", "reversed-letters"):
            if style == "reversed-letters" and N not in (2, 3):
                continue
            if N == 1 and style == "reversed-letters":
                continue
            def build(N=N, style=style):
                # N == 1: the default output, or (style padded) one output with a name of its own
                names = outnames(N, style) if N > 1 or style == "padded" else None
                p = Node("parent", outputs=names, payload=(functools.partial(gen_term, "parent", N) if N > 1 else functools.partial(term, "parent"), ["s"], {}))
                consumed = sorted({0, 1, N // 2, N - 1} & set(range(N)))
                kids = []
                for i in consumed:
                    o = p.get_output(names[i]) if names else p.get_output()
                    kids.append(Node(f"c{i}", payload=(functools.partial(term, f"c{i}"), ["x", i], {}), x=o))
                    kids.append(Node(f"d{i}", payload=(functools.partial(term, f"d{i}"), [i, "y"], {"k": 1}), y=o))
                return Graph(kids)
            yield f"multi N={N} {style}", {"family": "multi", "N": N, "style": style}, build


def src_gen(N, tag):
    for i in range(N):
        yield np.array([float(tag * 1000 + i)])


def ident(x):
    return ("seen", float(x[0]))


def fam_fluent():
    for N in NS:
        for via in ("source", "map", "reduce"):
            def build(N=N, via=via):
                coords = list(range(N))
                if via == "source":
                    payloads = np.empty((2,), dtype=object)
                    for i in range(2):
                        payloads[i] = fluent.Payload(src_gen, [N, i])
                    a = fluent.from_source(payloads, yields=("k", coords), dims=["x"])
                else:
                    payloads = np.empty((2,), dtype=object)
                    for i in range(2):
                        payloads[i] = fluent.Payload(src_const, [i])
                    s = fluent.from_source(payloads, dims=["x"])
                    if via == "map":
                        a = s.map(fluent.Payload(fan_out, ["input0", N]), yields=("k", coords))
                    else:
                        a = s.reduce(fluent.Payload(fan_out_many, kwargs={"n": N}), yields=("k", coords), dim="x")
                b = a.map(ident)
                return a, b
            yield f"fluent N={N} via {via}", {"family": "fluent", "N": N, "via": via}, build


def src_const(tag):
    return np.array([float(tag)])


def fan_out(x, n):
    for i in range(n):
        yield np.array([float(x[0]) * 1000 + i])


def fan_out_many(*xs, n=1):
    for i in range(n):
        yield np.array([sum(float(x[0]) for x in xs) * 1000 + i])


def fam_miscount():
    for N in NS:
        if N == 1:
            continue
        for d in (-2, -1, 1, 2):
            if N + d < 0:
                continue
            for style in ("decimal", "padded"):
                def build(N=N, d=d, style=style):
                    p = Node("parent", outputs=outnames(N, style), payload=(functools.partial(gen_count, "parent", N + d), [], {}))
                    return Graph([p])
                yield f"miscount N={N} yields {N + d} {style}", {"family": "miscount", "N": N, "d": d, "style": style}, build
            for container in ("list", "tuple"):
                def build(N=N, d=d, container=container):
                    p = Node("parent", outputs=outnames(N, "decimal"), payload=(functools.partial(seq_count, container, "parent", N + d), [], {}))
                    return Graph([p])
                yield f"miscount N={N} returns a {container} of {N + d}", {"family": "miscount", "N": N, "d": d, "style": "decimal", "container": container}, build
            for vals in ("none", "falsy"):
                def build(N=N, d=d, vals=vals):
                    p = Node("parent", outputs=outnames(N, "decimal"), payload=(functools.partial(gen_count_falsy, vals, N + d), [], {}))
                    return Graph([p])
                yield f"miscount N={N} yields {N + d} values all {vals}", {"family": "miscount", "N": N, "d": d, "style": "decimal", "vals": vals}, build


def check_fluent(tag, rp, build, out):
    try:
        a, b = build()
        g = b.graph()
    except Exception as e:
        out.append(({"monitor": "fluent_raised", "cause": type(e).__name__}, f"{tag}: {e!r}"[:300], rp))
        return
    if rp["N"] == 1:
        # yields with ONE coordinate: the node gets the single default output, and a single output means "the call
        # result" to graph and runner alike -- here a generator object, not the value it yields
        import types as _types

        try:
            vals1 = eval_graph(a.graph())
        except Exception as e:
            out.append(({"monitor": "fluent_raised", "cause": f"reference evaluation: {type(e).__name__}"}, f"{tag}: {e!r}"[:300], rp))
            return
        if any(isinstance(v, _types.GeneratorType) for v in vals1.values()):
            out.append(({"monitor": "value_mismatch", "cause": "fluent: a yields dimension with a single coordinate binds the generator object itself instead of the value it yields"},
                        f"{tag}: coordinate k=0 holds {next(v for v in vals1.values() if isinstance(v, _types.GeneratorType))!r}", rp))
            return
    # graph level, independent of the runner: by the reference evaluation (i-th yielded value <-> i-th declared output)
    # the consumer at coordinate i of the yields dimension must receive the i-th yielded value
    try:
        ref = eval_graph(g)
        kpos = list(b.nodes.dims).index("k")
        for idx in np.ndindex(b.nodes.shape):
            n = b.nodes.data[idx]
            n = n if isinstance(n, Node) else n.parent
            got = ref[(n.name, Node.DEFAULT_OUTPUT)]
            if int(round(float(got[1]))) % 1000 != idx[kpos]:
                out.append(({"monitor": "value_mismatch", "cause": "fluent: coordinate i of the yields dimension is not wired to the i-th declared output of the generator node"},
                            f"{tag}: coordinate k={idx[kpos]} is wired to the output holding yielded value #{int(round(float(got[1]))) % 1000}", rp))
                return
    except Exception as e:
        out.append(({"monitor": "fluent_raised", "cause": f"reference evaluation: {type(e).__name__}"}, f"{tag}: {e!r}"[:300], rp))
        return
    n_before = len(out)
    check_graph(tag, g, rp, out)
    if len(out) > n_before:
        return  # already reported at the dataset level
    # coordinate i of the yields dimension must carry the i-th yielded value
    try:
        job = graph2job(g)
        vals, failures = run_job(job)
    except Exception as e:
        return
    if failures:
        return
    nodes = b.nodes
    N = rp["N"]
    for idx in np.ndindex(nodes.shape):
        n = nodes.data[idx]
        n = n if isinstance(n, Node) else n.parent
        kpos = list(nodes.dims).index("k")
        got = vals.get((n.name, Node.DEFAULT_OUTPUT))
        if got is None:
            continue
        i = idx[kpos]
        if int(round(got[1])) % 1000 != i:
            out.append(({"monitor": "value_mismatch", "cause": "fluent: value at coordinate i of the yields dimension is not the i-th yielded value" + (" (N >= 11)" if N > 10 else "")},
                        f"{tag}: coordinate k={i} received yielded value #{int(round(got[1])) % 1000}", rp))
            return


def cases(thorough: bool = False):
    global NS
    if thorough:
        NS = NS_THOROUGH
    cs = []
    for tag, rp, build in fam_binding():
        cs.append(("graph", tag, rp, build))
    for tag, rp, build in fam_binding_wide():
        cs.append(("graph", tag, rp, build))
    for tag, rp, build in fam_same_source():
        cs.append(("graph", tag, rp, build))
    for tag, rp, build in fam_multi():
        cs.append(("graph", tag, rp, build))
    for tag, rp, build in fam_fluent():
        cs.append(("fluent", tag, rp, build))
    for tag, rp, build in fam_miscount():
        cs.append(("miscount", tag, rp, build))
    return cs


def run_case(c):
    kind, tag, rp, build = c
    out: list = []
    if kind == "graph":
        check_graph(tag, build(), rp, out)
    elif kind == "fluent":
        check_fluent(tag, rp, build, out)
    else:
        d = rp["d"]
        hint = "generator yields exactly one value fewer than declared (N-1): accepted silently" if d == -1 else ("fewer values than declared" if d < 0 else "more values than declared")
        if rp.get("vals"):
            hint += f" (yielded values all {rp['vals']})"
        if rp.get("container"):
            hint += f" (values returned as a {rp['container']})"
        check_graph(tag, build(), rp, out, expect_fail={"parent"}, cause_hint=hint)
    return out


def run(ctx):
    cs = cases(not ctx.quick)
    out = []
    for c in cs:
        out += common.with_timeout(run_case, c, 60)
    for sig, msg, rp in out:
        ctx.add_violation(common.Violation(sig, msg, rp))
    ctx.coverage.update(
        evaluations=len(cs), distinct_nontrivial=len([c for c in cs if c[2].get("family") != "binding" or c[2]["mask"]]), exhaustive=True,
        rule="binding: k in 0..3 positional slots x every subset fed by inputs x 0-2 keyword statics; multi-output parents with N in %s outputs (decimal names as fluent declares them, zero-padded names, reversed letters) consumed at positions {0,1,N/2,N-1} by two children each and unconsumed otherwise; fluent yields via from_source/map/reduce for the same N with a consumer per coordinate; generators yielding N-2..N+2 values must fail. Non-trivial = at least one input edge or several outputs" % NS,
    )
    ctx.sample({"family": "multi", "N": 12, "style": "decimal", "expect": "output str(i) holds the i-th yielded value"})
    ctx.sample({"family": "binding", "k": 3, "mask": "101", "nkw": 2})
    ctx.assume("excluded (the payload representation is ambiguous there, as the code notes): positional static strings equal to an input name; one input name twice in args",
               "tasks run through runner.run with a real Memory over an in-process shm (dict per host) and cloudpickle serde")


def replay(ctx, data):
    out = []
    for c in cases(True):
        if c[2] == data:
            out += run_case(c)
    return [common.Violation(sig, msg, rp) for sig, msg, rp in out]
