"""C19 - a job accepted by the builder is well formed and carries the values given.
Bounded-exhaustive: callables of every parameter kind x with_values alphabets x edges with existing/dangling
endpoints x interleavings of with_node/with_edge/build on persistent builders; every intermediate builder and
job is snapshotted and re-inspected at the end."""
from __future__ import annotations

import builtins
import inspect
import itertools

from cascade.low.builders import JobBuilder, TaskBuilder
from cascade.low.core import JobInstance, TaskInstance

from vf import common

PROP = "C19"


def f_none():
    return 0


def f_plain(a, b):
    return (a, b)


def f_typed(a: int, b: str = "x") -> int:
    return 0


def f_kwonly(a: int, *, k: float = 1.5) -> float:
    return 0.0


def f_var(*args, **kwargs):
    return (args, kwargs)


def f_mixed(a: bool, b: list) -> dict:
    return {}


def f_ret(a) -> str:
    return ""


def f_strsink(a: str, b: float = 2.0):
    return None


def f_falsy(a: int = 0, b: str = "", c=None, *, d: bool = False) -> list:
    return []


def f_posonly(a: int, b: str = "y", /, c: float = 1.0) -> int:
    """positional-only parameters are not addressable by keyword"""
    return 0


CALLABLES = [f_none, f_plain, f_typed, f_kwonly, f_var, f_mixed, f_ret, f_strsink, f_falsy, f_posonly]
POS = [(), (1,), ("ab",), (1, "z"), ([1, 2], None)]
CHAIN_POS = [(), (11,), ("p", "q", "r")]
KW_KINDS = ["none", "first-compatible", "first-incompatible", "unknown", "two"]
SAMPLE_VALUE = {"int": 7, "str": "s", "float": 2.5, "bool": True, "list": [1], "dict": {"k": 1}, "Any": 3}
WRONG_VALUE = {"int": "no", "str": 5, "float": "no", "bool": "no", "list": 5, "dict": 5}
# bool is a subclass of int: True is a valid int value, so the wrong values above avoid it on purpose


def expected_schema(f):
    sig = inspect.signature(f)
    kinds = {inspect.Parameter.KEYWORD_ONLY, inspect.Parameter.POSITIONAL_OR_KEYWORD}
    ann = lambda a: "Any" if a is inspect.Parameter.empty else (a if isinstance(a, str) else a.__name__)  # noqa: E731
    schema = {p.name: ann(p.annotation) for p in sig.parameters.values() if p.kind in kinds}
    defaults = {p.name: p.default for p in sig.parameters.values() if p.kind in kinds and p.default is not inspect.Parameter.empty}
    return schema, defaults, ann(sig.return_annotation)


def kw_for(f, kind):
    schema, _, _ = expected_schema(f)
    names = list(schema)
    if kind == "none":
        return {}
    if kind == "unknown":
        return {"zz": 1}
    if not names:
        return None
    first = names[0]
    if kind == "first-compatible":
        return {first: SAMPLE_VALUE[schema[first]]}
    if kind == "first-incompatible":
        if schema[first] == "Any":
            return None
        return {first: WRONG_VALUE[schema[first]]}
    if kind == "two":
        if len(names) < 2:
            return None
        return {names[0]: SAMPLE_VALUE[schema[names[0]]], names[1]: SAMPLE_VALUE[schema[names[1]]]}
    raise AssertionError(kind)


def where_of(e: BaseException) -> str:
    import traceback

    tb = traceback.extract_tb(e.__traceback__)
    inner = [f for f in tb if "/repo/src" in f.filename]
    return f"{inner[-1].name}" if inner else "harness"


def task_case(ci: int, pi: int, kind: str, out: list):
    """with_values oracle; returns the task or None"""
    f = CALLABLES[ci]
    kw = kw_for(f, kind)
    if kw is None:
        return None, False
    rp = {"kind": "task", "callable": f.__name__, "pos": pi, "kw": kind}
    schema, defaults, ret = expected_schema(f)
    try:
        base = TaskBuilder.from_callable(f)
    except Exception as e:
        out.append(({"monitor": "from_callable_raised", "cause": f"{type(e).__name__} in {where_of(e)}"}, f"{f.__name__}: {e!r}", rp))
        return None, True
    if dict(base.definition.input_schema) != schema or dict(base.static_input_kw) != defaults or dict(base.definition.output_schema) != {"0": ret}:
        out.append(({"monitor": "from_callable_schema", "cause": "schema/defaults differ from the signature"}, f"{f.__name__}: {base.definition.input_schema} {base.static_input_kw}", rp))
    before = base.model_dump()
    try:
        t = base.with_values(*POS[pi], **kw)
    except Exception as e:
        cause = f"{type(e).__name__} in {where_of(e)}; " + ("positional values given" if POS[pi] else "keyword values only")
        out.append(({"monitor": "with_values_raised", "cause": cause}, f"{f.__name__}.with_values(*{POS[pi]}, **{kw}) -> {e!r}", rp))
        return None, True
    want_ps = {str(i): v for i, v in enumerate(POS[pi])}
    want_kw = {**defaults, **kw}
    if dict(t.static_input_ps) != want_ps:
        out.append(({"monitor": "with_values_positional", "cause": "positional values not stored under their index"}, f"{f.__name__}.with_values(*{POS[pi]}) -> {t.static_input_ps} expected {want_ps}", rp))
    if dict(t.static_input_kw) != want_kw:
        out.append(({"monitor": "with_values_keyword", "cause": "keyword values/defaults not stored under their names"}, f"{f.__name__}.with_values(**{kw}) -> {t.static_input_kw} expected {want_kw}", rp))
    if base.model_dump() != before:
        out.append(({"monitor": "with_values_mutates", "cause": "with_values changed the task it was called on"}, f"{f.__name__}", rp))
    # a second binding on top of the first: its values appear under exactly their positions/names, everything bound
    # before and not re-bound stays where it was, nothing else appears
    mid = t.model_dump()
    for p2 in CHAIN_POS:
        for kw2 in [{}, {"zz2": 9}] + ([{list(kw)[0]: "rebound"}] if kw else []):
            try:
                t2 = t.with_values(*p2, **kw2)
            except Exception as e:
                out.append(({"monitor": "with_values_raised", "cause": f"{type(e).__name__} in {where_of(e)}; second binding on a bound task"}, f"{f.__name__}.with_values(*{POS[pi]}, **{kw}).with_values(*{p2}, **{kw2}) -> {e!r}", dict(rp, chain=True)))
                continue
            want_ps2 = {**want_ps, **{str(i): v for i, v in enumerate(p2)}}
            want_kw2 = {**want_kw, **kw2}
            if dict(t2.static_input_ps) != want_ps2:
                out.append(({"monitor": "with_values_positional", "cause": "second binding: positional values not stored under their index"}, f"{f.__name__}.with_values(*{POS[pi]}).with_values(*{p2}) -> {t2.static_input_ps} expected {want_ps2}", dict(rp, chain=True)))
            if dict(t2.static_input_kw) != want_kw2:
                out.append(({"monitor": "with_values_keyword", "cause": "second binding: keyword values not stored under their names"}, f"{f.__name__}.with_values(**{kw}).with_values(**{kw2}) -> {t2.static_input_kw} expected {want_kw2}", dict(rp, chain=True)))
    if t.model_dump() != mid:
        out.append(({"monitor": "with_values_mutates", "cause": "with_values changed the task it was called on"}, f"{f.__name__} (second binding)", dict(rp, chain=True)))
    return t, True


# --- defaults and bound values that do not compare to a plain bool (arrays): their own small family, compared with a
# deep equality that understands arrays; every (callable, positional tuple, keyword binding) combination is tried
import numpy as _np


def g_arr(a, w=_np.arange(3.0)):
    return a


def g_arr_kwonly(a: int = 0, *, w=_np.zeros((2, 2)), s: str = "t"):
    return a


def g_arr1(w=_np.ones(1), v=_np.zeros(0)):
    return w


ARRAY_CALLABLES = {f.__name__: f for f in (g_arr, g_arr_kwonly, g_arr1)}
ARRAY_POS = [(), (_np.arange(2),), (1, _np.ones((1, 2)))]
ARRAY_KW = {"none": {}, "rebind-w": {"w": _np.full(2, 5.0)}, "w-scalar": {"w": 4}, "other": {"zz": _np.zeros(2)}}


def deep_eq(x, y) -> bool:
    if isinstance(x, _np.ndarray) or isinstance(y, _np.ndarray):
        return isinstance(x, _np.ndarray) and isinstance(y, _np.ndarray) and x.dtype == y.dtype and x.shape == y.shape and bool((x == y).all())
    if isinstance(x, dict) and isinstance(y, dict):
        return list(x) == list(y) and all(deep_eq(x[k], y[k]) for k in x)
    if isinstance(x, (list, tuple)) and type(x) is type(y):
        return len(x) == len(y) and all(deep_eq(a, b) for a, b in zip(x, y))
    return type(x) is type(y) and x == y


def array_case(name: str, pi: int, kwname: str, out: list) -> bool:
    f = ARRAY_CALLABLES[name]
    rp = {"kind": "array", "callable": name, "pos": pi, "kw": kwname}
    schema, defaults, ret = expected_schema(f)
    try:
        base = TaskBuilder.from_callable(f)
    except Exception as e:
        out.append(({"monitor": "from_callable_raised", "cause": f"{type(e).__name__} in {where_of(e)}; a default that is an array"}, f"{name}: {e!r}", rp))
        return True
    if dict(base.definition.input_schema) != schema or not deep_eq(dict(base.static_input_kw), defaults):
        out.append(({"monitor": "from_callable_schema", "cause": "schema/defaults differ from the signature (array defaults)"}, f"{name}: {base.definition.input_schema} {base.static_input_kw}", rp))
    pos, kw = ARRAY_POS[pi], ARRAY_KW[kwname]
    try:
        t = base.with_values(*pos, **kw)
    except Exception as e:
        out.append(({"monitor": "with_values_raised", "cause": f"{type(e).__name__} in {where_of(e)}; array values"}, f"{name}.with_values(*{pos}, **{kw}) -> {e!r}", rp))
        return True
    if not deep_eq(dict(t.static_input_ps), {str(i): v for i, v in enumerate(pos)}):
        out.append(({"monitor": "with_values_positional", "cause": "positional array values not stored under their index"}, f"{name}.with_values(*{pos}) -> {t.static_input_ps}", rp))
    if not deep_eq(dict(t.static_input_kw), {**defaults, **kw}):
        out.append(({"monitor": "with_values_keyword", "cause": "keyword array values/defaults not stored under their names"}, f"{name}.with_values(**{kw}) -> {t.static_input_kw}", rp))
    if not deep_eq(dict(base.static_input_kw), defaults) or dict(base.static_input_ps):
        out.append(({"monitor": "with_values_mutates", "cause": "with_values changed the task it was called on (array values)"}, name, rp))
    # the task goes into a job unchanged
    try:
        res = JobBuilder().with_node("n", t).build()
        if res.e:
            if kwname != "other":  # an unknown keyword is a legitimate problem; nothing else in this family is
                out.append(({"monitor": "build_rejected", "cause": "a task with array values and no edges was rejected"}, f"{name}: {res.e}", rp))
            return True
        ti = res.t.tasks["n"]
        if not deep_eq(dict(ti.static_input_kw), {**defaults, **kw}) or not deep_eq(dict(ti.static_input_ps), {str(i): v for i, v in enumerate(pos)}):
            out.append(({"monitor": "build_changes_values", "cause": "array values differ in the built job"}, f"{name}: {ti.static_input_kw} {ti.static_input_ps}", rp))
    except Exception as e:
        out.append(({"monitor": "build_raised", "cause": f"{type(e).__name__} in {where_of(e)}; array values"}, f"{name}: {e!r}", rp))
    return True


def compatible(t1: str, t2: str) -> bool | None:
    """reference notion of 'compatible declared type': None = undeclared on either side (no constraint)"""
    if t1 == "Any" or t2 == "Any":
        return None
    a, b = getattr(builtins, t1, None), getattr(builtins, t2, None)
    if a is None or b is None:
        return None
    return issubclass(a, b)


def snap_builder(b: JobBuilder):
    return ({k: v.model_dump() for k, v in b.nodes.items()}, [e.model_dump() for e in b.edges])


def snap_job(j: JobInstance):
    return j.model_dump()


EDGE_SRC = ["a", "ghost"]
EDGE_OUT = ["0", "nope", "x"]
EDGE_SINK = ["b", "ghost"]


def edge_alphabet(sink_f):
    schema, _, _ = expected_schema(sink_f)
    intos = list(schema)[:2] + ["nokw", 0, 5]
    return [(s, o, d, i) for s in EDGE_SRC for o in EDGE_OUT for d in EDGE_SINK for i in intos]


def check_build(b: JobBuilder, desc: str, rp: dict, out: list):
    try:
        r = b.build()
    except Exception as e:
        cause = f"{type(e).__name__} in {where_of(e)}"
        out.append(({"monitor": "build_raised", "cause": cause}, f"{desc}: {e!r}"[:400], rp))
        return None
    if r.e:
        if not (isinstance(r.e, list) and r.e and all(isinstance(x, str) for x in r.e)):
            out.append(({"monitor": "build_error_shape", "cause": "problems are not a non-empty list of strings"}, f"{desc}: {r.e!r}", rp))
        return None
    job = r.t
    if not isinstance(job, JobInstance):
        out.append(({"monitor": "build_no_job", "cause": "neither a job nor problems returned"}, f"{desc}: {r.t!r}", rp))
        return None
    for e in job.edges:
        src = job.tasks.get(e.source.task)
        if src is None:
            out.append(({"monitor": "accepted_dangling_source_task", "cause": "edge starts at a task that does not exist"}, f"{desc}: {e}", rp))
            continue
        if e.source.output not in src.definition.output_schema:
            out.append(({"monitor": "accepted_dangling_source_output", "cause": "edge starts at an output that does not exist"}, f"{desc}: {e}", rp))
        snk = job.tasks.get(e.sink_task)
        if snk is None:
            out.append(({"monitor": "accepted_dangling_sink_task", "cause": "edge ends at a task that does not exist"}, f"{desc}: {e}", rp))
            continue
        if e.sink_input_kw is not None:
            if e.sink_input_kw not in snk.definition.input_schema:
                out.append(({"monitor": "accepted_dangling_sink_param", "cause": "keyword edge ends at a parameter that does not exist"}, f"{desc}: {e}", rp))
            elif e.source.output in src.definition.output_schema:
                c = compatible(src.definition.output_schema[e.source.output], snk.definition.input_schema[e.sink_input_kw])
                if c is False:
                    out.append(({"monitor": "accepted_incompatible_types", "cause": "keyword edge joins incompatible declared types"}, f"{desc}: {e}", rp))
    return job


def pair_case(arg):
    si, di, vi = arg
    named = vi >= 4  # variants 4..: as variant 0 but the source has named outputs only
    vi = vi - 4 if named else vi
    out: list = []
    src_f, sink_f = CALLABLES[si], CALLABLES[di]
    rp0 = {"kind": "pair", "src": si, "sink": di, "variant": vi + (4 if named else 0)}
    n_builds = 0
    try:
        src = TaskBuilder.from_callable(src_f)
        if named:
            # a task with named outputs only ("x", "y": no default output "0"), added as a plain TaskInstance
            d = src.definition.model_copy(update={"output_schema": {"x": src.definition.output_schema["0"], "y": "str"}})
            src = TaskInstance(definition=d, static_input_kw=dict(src.static_input_kw), static_input_ps=dict(src.static_input_ps))
        sink = TaskBuilder.from_callable(sink_f)
        kwv = kw_for(sink_f, ["none", "first-compatible", "first-incompatible", "unknown"][vi])
        if kwv is None:
            return out, 0, 0
        if kwv:
            sink = sink.model_copy(update={"static_input_kw": {**sink.static_input_kw, **kwv}})
    except Exception as e:
        out.append(({"monitor": "from_callable_raised", "cause": f"{type(e).__name__} in {where_of(e)}"}, f"{e!r}", rp0))
        return out, 0, 0
    snaps_b: list = []
    snaps_j: list = []

    def keep_b(b):
        snaps_b.append((b, snap_builder(b)))
        return b

    def keep_j(j):
        if j is not None:
            snaps_j.append((j, snap_job(j)))

    b0 = keep_b(JobBuilder())
    keep_j(check_build(b0, "empty builder", rp0, out))
    b1 = keep_b(b0.with_node("a", src))
    keep_j(check_build(b1, f"a={src_f.__name__}", rp0, out))
    b2 = keep_b(b1.with_node("b", sink))
    keep_j(check_build(b2, f"a={src_f.__name__},b={sink_f.__name__}", rp0, out))
    n_builds += 3
    alphabet = edge_alphabet(sink_f)
    nontrivial = 0
    for ei, (s, o, d, into) in enumerate(alphabet):
        rp = dict(rp0, edges=[ei])
        b3 = keep_b(b2.with_edge(s, d, into, o))
        keep_j(check_build(b3, f"{src_f.__name__}->{sink_f.__name__} edge {(s, o, d, into)}", rp, out))
        n_builds += 1
        nontrivial += 1
        # a second edge on top (persistent builder chain), and a node replaced after edges were added
        for ej in (0, len(alphabet) - 1, ei):
            s2, o2, d2, into2 = alphabet[ej]
            b4 = keep_b(b3.with_edge(s2, d2, into2, o2))
            keep_j(check_build(b4, f"edges {(s, o, d, into)} + {(s2, o2, d2, into2)}", dict(rp0, edges=[ei, ej]), out))
            n_builds += 1
        b5 = keep_b(b3.with_node("b", src))
        keep_j(check_build(b5, f"edge {(s, o, d, into)} then b replaced by {src_f.__name__}", dict(rp0, edges=[ei], replaced=True), out))
        n_builds += 1
    for b, snap in snaps_b:
        if snap_builder(b) != snap:
            out.append(({"monitor": "builder_mutated", "cause": "an earlier builder changed after later calls"}, f"{src_f.__name__}/{sink_f.__name__}", rp0))
            break
    for j, snap in snaps_j:
        if snap_job(j) != snap:
            out.append(({"monitor": "job_mutated", "cause": "a previously built job changed after later builder calls"}, f"{src_f.__name__}/{sink_f.__name__}", rp0))
            break
    return out, n_builds, nontrivial


def run(ctx):
    out: list = []
    n = 0
    nontrivial = set()
    for ci in range(len(CALLABLES)):
        for pi in range(len(POS)):
            for kind in KW_KINDS:
                t, counted = task_case(ci, pi, kind, out)
                if counted:
                    n += 1
                    if POS[pi] or kind != "none":
                        nontrivial.add((ci, pi, kind))
    n_arr = 0
    for name in ARRAY_CALLABLES:
        for pi in range(len(ARRAY_POS)):
            for kwname in ARRAY_KW:
                n_arr += array_case(name, pi, kwname, out)
                nontrivial.add((name, pi, kwname))
    n += n_arr
    pairs = [(si, di, vi) for si in range(len(CALLABLES)) for di in range(len(CALLABLES)) for vi in range(4)]
    pairs += [(si, di, 4) for si in (1, 2, 6) for di in range(len(CALLABLES))]  # sources with named outputs only
    if ctx.quick:
        pairs = [p for p in pairs if p[2] == 0 or p[0] in (2, 3, 6) or (p[2] == 3 and p[0] == 0)]
    res = common.pmap(pair_case, common.rotate(pairs, ctx.seed))
    nt = len(nontrivial)
    for o, nb, ntv in res:
        out.extend(o)
        n += nb
        nt += ntv
    for sig, msg, rp in out:
        ctx.add_violation(common.Violation(sig, msg, rp))
    ctx.coverage.update(
        evaluations=n, distinct_nontrivial=nt, exhaustive=True,
        rule="callables %s x positional alphabets %s x keyword kinds %s for with_values; for every (source, sink, sink-static variant) pair every single edge over {existing,dangling source} x {existing,dangling output} x {existing,dangling sink} x {existing kw params, unknown kw, position 0, position 5}, each extended by a second edge (3 choices) and by a node replacement, all on persistent builders; non-trivial = with_values with at least one value / a build with at least one edge (distinct edge tuple per pair); array family: callables whose defaults are numpy arrays (3) x positional tuples holding arrays (3) x keyword bindings (4), compared element-wise and built into a one-node job" % ([f.__name__ for f in CALLABLES], POS, KW_KINDS),
    )
    ctx.sample({"task": "f_typed.with_values(1, 'z', b='s')", "expect": {"static_input_ps": {"0": 1, "1": "z"}, "static_input_kw": {"b": "s"}}})
    ctx.sample({"builder": ["with_node('a', f_ret)", "with_node('b', f_typed)", "with_edge('a','ghost','a','0')", "build()"], "expect": "problems list, never an exception"})
    ctx.assume("annotation alphabet = builtin types (int, str, float, bool, list, dict) or absent; '-> None', unions and user classes are outside the alphabet",
               "'compatible declared type' is only enforced when both ends declare a builtin type")


def replay(ctx, data):
    out: list = []
    if data["kind"] == "array":
        array_case(data["callable"], data["pos"], data["kw"], out)
    elif data["kind"] == "task":
        ci = [f.__name__ for f in CALLABLES].index(data["callable"])
        task_case(ci, data["pos"], data["kw"], out)
    else:
        o, _, _ = pair_case((data["src"], data["sink"], data["variant"]))
        out = o
    return [common.Violation(sig, msg, rp) for sig, msg, rp in out]
