"""C15 - array backends agree with NumPy; 'batchable' functions really are batchable.
Bounded-exhaustive: every operation x 1..4 (thorough 6) arguments x small shapes x {int64, float64} x every axis / dim /
index argument x {plain NumPy via the array-API backend, xr.DataArray, xr.Dataset}; every function discovered with a
`batchable` marker on Backend x every partition of k <= 5 arguments into batches."""
from __future__ import annotations

import itertools

import numpy as np
import xarray as xr

from earthkit.workflows import backends

from vf import common

PROP = "C15"

SHAPES = [(2,), (3,), (1, 3), (2, 2), (2, 3)]
# mixed: arguments alternate int64, float64 (the narrower type first); narrow types with values at their upper end, where
# an accumulation in the argument type wraps around (uint8/int8) or saturates to a logical OR (bool)
DTYPES = ["int64", "float64", "mixed", "uint8", "int8", "bool"]
REDUCTIONS = ["sum", "prod", "min", "max", "mean", "std", "var"]
BINARY = {"add": np.add, "subtract": np.subtract, "multiply": np.multiply, "divide": np.divide, "pow": np.power}


def arr(shape, dtype, k):
    n = int(np.prod(shape))
    base = (np.arange(n) * (k + 2) + 3 * k + 1) % 7 + 1  # small positive distinct-ish integers
    if dtype == "mixed":
        a = base.reshape(shape).astype("int64" if k % 2 == 0 else "float64")
        return a if k % 2 == 0 else a + 0.5  # the float arguments carry a fraction that a cast would lose
    if dtype == "uint8":
        return (250 - base).reshape(shape).astype("uint8")
    if dtype == "int8":
        return (125 - base).reshape(shape).astype("int8")
    if dtype == "bool":
        return ((base + k) % 3 != 0).reshape(shape)
    return base.reshape(shape).astype(dtype)


def wrap(a: np.ndarray, kind: str):
    dims = [f"d{i}" for i in range(a.ndim)]
    if kind == "numpy":
        return a
    da = xr.DataArray(a, dims=dims)
    if kind == "dataarray":
        return da
    return xr.Dataset({"u": da, "v": da * 2})


def unwrap(x, kind):
    """-> list of (values, dims or None)"""
    if kind == "dataset":
        if not isinstance(x, xr.Dataset):
            return [("type", type(x).__name__)]
        return [(np.asarray(x[v].values), tuple(x[v].dims)) for v in ("u", "v")]
    if kind == "dataarray":
        if not isinstance(x, xr.DataArray):
            return [("type", type(x).__name__)]
        return [(np.asarray(x.values), tuple(x.dims))]
    return [(np.asarray(x), None)]


def expect(vals_fn, arrays, kind):
    """reference values from plain numpy arrays; for datasets variable v = 2*u"""
    if kind == "dataset":
        return [vals_fn([a for a in arrays]), vals_fn([a * 2 for a in arrays])]
    return [vals_fn(arrays)]


def same(got, want_vals, check_dims=None):
    if len(got) != len(want_vals):
        return False
    for (g, gd), w in zip(got, want_vals):
        if isinstance(g, str):
            return False
        w = np.asarray(w)
        if g.shape != w.shape:
            return False
        if not np.allclose(g.astype(float), w.astype(float), rtol=1e-12, atol=1e-12, equal_nan=True):
            return False
    return True


class Acc:
    def __init__(self):
        self.n = 0
        self.nontrivial = set()
        self.viol = []

    def bad(self, mon, cause, msg, rp):
        self.viol.append(({"monitor": mon, "cause": cause}, msg, rp))


def call(acc, rp, f, *a, **k):
    try:
        return True, f(*a, **k)
    except Exception as e:
        import traceback

        tb = traceback.extract_tb(e.__traceback__)
        inner = [fr for fr in tb if "/repo/src" in fr.filename]
        where = f"{inner[-1].filename.split('/')[-1]}:{inner[-1].name}" if inner else "?"
        acc.bad("backend_raised", f"{rp['op']} on {rp['kind']}: {type(e).__name__} in {where}", f"{rp}: {e!r}"[:300], rp)
        return False, None


def run_values(acc: Acc, maxargs: int):
    for kind in ("numpy", "dataarray", "dataset"):
        for shape in SHAPES:
            for dtype in DTYPES:
                base = [arr(shape, dtype, k) for k in range(maxargs)]
                dims = [f"d{i}" for i in range(len(shape))]
                # reductions: several arguments => elementwise across the arguments
                for op in REDUCTIONS:
                    f = getattr(backends, op)
                    for k in range(2, maxargs + 1):
                        rp = {"family": "values", "op": op, "kind": kind, "shape": list(shape), "dtype": dtype, "nargs": k}
                        acc.n += 1
                        ok, got = call(acc, rp, f, *[wrap(a, kind) for a in base[:k]])
                        if ok and not same(unwrap(got, kind), expect(lambda xs: getattr(np, op)(np.stack(xs), axis=0), base[:k], kind)):
                            acc.bad("value_mismatch", f"{op} over several arguments differs from NumPy on {kind}", f"{rp}", rp)
                        acc.nontrivial.add((op, kind, shape, dtype, k))
                        # several arguments together with an axis / dim keyword (fluent hands the caller's backend_kwargs to
                        # every node of a batched reduction): the arguments are still reduced across the new leading axis
                        for ax in ([None, 0, -1] + ([1] if len(shape) >= 1 else [])) if k <= 3 else ():
                            kw = {"axis": ax} if kind == "numpy" else ({"dim": dims[0]} if dims and ax == 0 else None)
                            if kw is None:
                                continue
                            rp2 = dict(rp, axis=ax, with_axis_keyword=True)
                            acc.n += 1
                            ok, got = call(acc, rp2, f, *[wrap(a, kind) for a in base[:k]], **kw)
                            if ok and not same(unwrap(got, kind), expect(lambda xs: getattr(np, op)(np.stack(xs), axis=0), base[:k], kind)):
                                acc.bad("value_mismatch", f"{op} over several arguments with an axis/dim keyword is not the reduction across the arguments on {kind}", f"{rp2}", rp2)
                    # one argument: reduction along an axis / dim
                    for ax in [None] + list(range(len(shape))) + ([-1] if kind == "numpy" else []):
                        rp = {"family": "values", "op": op, "kind": kind, "shape": list(shape), "dtype": dtype, "nargs": 1, "axis": ax}
                        acc.n += 1
                        kw = {}
                        if ax is not None:
                            kw = {"axis": ax} if kind == "numpy" else {"dim": dims[ax]}
                        ok, got = call(acc, rp, f, wrap(base[0], kind), **kw)
                        if ok and not same(unwrap(got, kind), expect(lambda xs: getattr(np, op)(xs[0], axis=ax), base[:1], kind)):
                            acc.bad("value_mismatch", f"{op} of one argument along an axis differs from NumPy on {kind}", f"{rp}", rp)
                        acc.nontrivial.add((op, kind, shape, dtype, 1, ax))
                # stack / concat
                for k in range(1, maxargs + 1):
                    for ax in list(range(len(shape) + 1)) + list(range(-(len(shape) + 1), 0)):
                        rp = {"family": "values", "op": "stack", "kind": kind, "shape": list(shape), "dtype": dtype, "nargs": k, "axis": ax}
                        acc.n += 1
                        kw = {"axis": ax} if kind == "numpy" else {"axis": ax, "dim": "new"}
                        ok, got = call(acc, rp, backends.stack, *[wrap(a, kind) for a in base[:k]], **kw)
                        if ok:
                            if not same(unwrap(got, kind), expect(lambda xs: np.stack(xs, axis=ax), base[:k], kind)):
                                acc.bad("value_mismatch", f"stack differs from NumPy on {kind}", f"{rp}", rp)
                            elif kind != "numpy":
                                gd = unwrap(got, kind)[0][1]
                                if gd[ax] != "new":  # negative ax indexes from the end, as in NumPy
                                    acc.bad("dims_mismatch", f"stack put the new dimension at the wrong axis on {kind}", f"{rp}: {gd}", rp)
                        acc.nontrivial.add(("stack", kind, shape, dtype, k, ax))
                    for ax in list(range(len(shape))) + list(range(-len(shape), 0)):
                        rp = {"family": "values", "op": "concat", "kind": kind, "shape": list(shape), "dtype": dtype, "nargs": k, "axis": ax}
                        acc.n += 1
                        kw = {"axis": ax} if kind == "numpy" else {"dim": dims[ax]}
                        ok, got = call(acc, rp, backends.concat, *[wrap(a, kind) for a in base[:k]], **kw)
                        if ok and not same(unwrap(got, kind), expect(lambda xs: np.concatenate(xs, axis=ax), base[:k], kind)):
                            acc.bad("value_mismatch", f"concat differs from NumPy on {kind}", f"{rp}", rp)
                        acc.nontrivial.add(("concat", kind, shape, dtype, k, ax))
                # binary
                for op, npf in BINARY.items():
                    for nested in (False, True):
                        rp = {"family": "values", "op": op, "kind": kind, "shape": list(shape), "dtype": dtype, "nested": nested}
                        acc.n += 1
                        a, b = base[0], base[1] % 3 + 1
                        args = [wrap(a, kind), wrap(b, kind)]
                        ok, got = call(acc, rp, getattr(backends, op), *([args] if nested else args))
                        if ok and not same(unwrap(got, kind), expect(lambda xs: npf(xs[0], xs[1]), [a, b], kind) if kind != "dataset" else [npf(a, b), npf(a * 2, b * 2)]):
                            acc.bad("value_mismatch", f"{op} differs from NumPy on {kind}", f"{rp}", rp)
                        acc.nontrivial.add((op, kind, shape, dtype, nested))
                    # scalar second operand (used by fluent arithmetic with constants)
                    rp = {"family": "values", "op": op, "kind": kind, "shape": list(shape), "dtype": dtype, "scalar": 2}
                    acc.n += 1
                    ok, got = call(acc, rp, getattr(backends, op), wrap(base[0], kind), 2)
                    if ok and not same(unwrap(got, kind), [npf(base[0], 2)] if kind != "dataset" else [npf(base[0], 2), npf(base[0] * 2, 2)]):
                        acc.bad("value_mismatch", f"{op} with a scalar differs from NumPy on {kind}", f"{rp}", rp)
                # take
                for ax in list(range(len(shape))) + [-1]:
                    for idx in [0, shape[ax] - 1, [0], list(range(shape[ax]))[::-1]]:
                        for dimspec in (["int"] if kind == "numpy" else ["int", "name"]):
                            rp = {"family": "values", "op": "take", "kind": kind, "shape": list(shape), "dtype": dtype, "axis": ax, "index": idx, "dimspec": dimspec}
                            acc.n += 1
                            d = ax if dimspec == "int" else dims[ax]
                            ok, got = call(acc, rp, backends.take, wrap(base[0], kind), idx, dim=d)
                            if ok and not same(unwrap(got, kind), expect(lambda xs: np.take(xs[0], idx, axis=ax), base[:1], kind)):
                                acc.bad("value_mismatch", f"take differs from NumPy on {kind}", f"{rp}", rp)
                            acc.nontrivial.add(("take", kind, shape, dtype, ax, str(idx), dimspec))


def set_partitions(items):
    if not items:
        yield []
        return
    first, rest = items[0], items[1:]
    for p in set_partitions(rest):
        for i in range(len(p)):
            yield p[:i] + [[first] + p[i]] + p[i + 1:]
        yield [[first]] + p


def compositions(items):
    n = len(items)
    for cuts in itertools.product([0, 1], repeat=n - 1):
        parts, cur = [], [items[0]]
        for c, it in zip(cuts, items[1:]):
            if c:
                parts.append(cur)
                cur = [it]
            else:
                cur.append(it)
        parts.append(cur)
        yield parts


def run_batchable(acc: Acc, maxk: int):
    marked = sorted(name for name, f in vars(backends.Backend).items() if getattr(f, "batchable", False))
    acc.marked = marked
    for name in marked:
        f = getattr(backends, name)
        for kind in ("numpy", "dataarray"):
            for shape in [(2,), (2, 3)]:
                dims = [f"d{i}" for i in range(len(shape))]
                for k in range(2, maxk + 1):
                    # values chosen so that a wrong law shows: distinct, not symmetric
                    base = [(arr(shape, "float64", i) * (i + 1) + i * i).astype("float64") for i in range(k)]
                    items = list(range(k))
                    kw = {}
                    if name == "concat":
                        kw = {"axis": 0} if kind == "numpy" else {"dim": dims[0]}
                    parts_iter = compositions(items) if name == "concat" else set_partitions(items)
                    rp0 = {"family": "batchable", "op": name, "kind": kind, "shape": list(shape), "k": k}
                    ok, whole = call(acc, dict(rp0, op=name), f, *[wrap(base[i], kind) for i in items], **kw)
                    if not ok:
                        continue
                    for parts in parts_iter:
                        if len(parts) == 1:
                            continue
                        acc.n += 1
                        rp = dict(rp0, partition=parts)
                        try:
                            inter = [f(*[wrap(base[i], kind) for i in p], **kw) if len(p) >= 2 else wrap(base[p[0]], kind) for p in parts]
                            got = f(*inter, **kw)
                        except Exception as e:
                            acc.bad("batchable_raised", f"{name}: {type(e).__name__}", f"{rp}: {e!r}"[:300], rp)
                            continue
                        if not same(unwrap(got, kind), [np.asarray(unwrap(whole, kind)[0][0])]):
                            acc.bad("not_batchable", f"{name} is marked batchable but f(f(b1),...,f(bk)) != f(all)", f"{rp}: {np.asarray(unwrap(got, kind)[0][0]).tolist()} vs {np.asarray(unwrap(whole, kind)[0][0]).tolist()}", rp)
                        acc.nontrivial.add((name, kind, shape, k, str(parts)))


def run(ctx):
    acc = Acc()
    run_values(acc, ctx.pick(4, 6))
    run_batchable(acc, ctx.pick(4, 5))
    for sig, msg, rp in acc.viol:
        ctx.add_violation(common.Violation(sig, msg, rp))
    ctx.coverage.update(
        evaluations=acc.n, distinct_nontrivial=len(acc.nontrivial), exhaustive=True, batchable_marked=acc.marked,
        rule="ops %s + stack/concat/take/binary x 1..%d args x shapes %s x %s x every axis/dim/index (int and sequence) x {numpy via array-API, DataArray, Dataset}; batchable: every function with the marker (discovered by scanning Backend) x every set partition (compositions for concat) of k<=%d arguments, single-element batches passed through as the fluent API does. Non-trivial = distinct (op, backend, shape, dtype, arity/axis/partition)" % (REDUCTIONS, ctx.pick(4, 6), SHAPES, DTYPES, ctx.pick(4, 5)),
    )
    ctx.sample({"op": "sum", "kind": "dataset", "shape": [2, 3], "dtype": "int64", "nargs": 3, "reference": "np.sum(np.stack(args), axis=0) per variable"})
    ctx.sample({"batchable": "max", "partition": [[0, 2], [1], [3]], "law": "max(max(a0,a2), a1, a3) == max(a0,a1,a2,a3)"})
    ctx.assume("values are small positive integers (exact in float64); earthkit-data FieldList backend is not importable here and is outside the check")


def replay(ctx, data):
    acc = Acc()
    if data["family"] == "batchable":
        run_batchable(acc, 4)
    else:
        run_values(acc, 4)
    return [common.Violation(sig, msg, rp) for sig, msg, rp in acc.viol]
