"""C13 - fluent programs denote the arrays NumPy would compute, batched or not.
Bounded-exhaustive: op sequences of depth <= 2 (quick) / 3 (thorough) over explicit parameter alphabets, node-array
shapes (2,),(3,),(4,),(5,),(2,2),(2,3),(2,2,2) and internal shapes (2,),(2,3); Action.graph() is evaluated by a small
interpreter and compared, coordinate by coordinate, with a NumPy-only reference (vf/fluent_ref.py)."""
from __future__ import annotations

import json

import numpy as np

from vf import common
from vf import fluent_ref as fr

PROP = "C13"
SHAPES = [(2,), (3,), (4,), (5,), (2, 2), (2, 3), (2, 2, 2)]
ISHAPES = [(2,), (2, 3)]
ORDER_OPS = set(fr.NPRED) | {"reduce_default_dim", "flatten_default_dim", "sel_kw", "isel_slice", "map_array", "stack", "flatten", "concatenate", "expand", "expand_coord", "transform", "reduce_first", "map", "isel", "sel"} | set(fr.NPBIN)


def ops_for(r: fr.RefAction, full: bool, step: int):
    ish = r.vals.flat[0].shape if r.vals.size else ()
    nd = len(ish)
    out = [["map"]]
    nodims = len(r.dims)
    if nodims >= 1:
        if r.sizes[r.dims[0]] >= 2:
            for red in (list(fr.NPRED) if full else ["sum", "std"]):
                for bs in ([0, 2] if full else [2]):
                    out.append(["reduce_default_dim", red, bs])
            out.append(["flatten_default_dim"])
        out.append(["map_array"])
        if "m" not in r.dims and all(r.labels[d] is not None for d in r.dims):
            out.append(["join_match", list(ish)])
    for di, dim in enumerate(r.dims):
        n = r.sizes[dim]
        if n >= 2:
            bss = sorted({0, 1, 2, 3, n, n + 1}) if full else sorted({0, 2, n})
            for ri, red in enumerate(fr.NPRED):
                for bs in bss:
                    keeps = [False, True] if full else [bool((ri + bs + step) % 2)]
                    for keep in keeps:
                        out.append([red, dim, bs, keep])
                    if full and bs in (0, 2):
                        out.append([red, dim, bs, False, "backend_kwargs"])
            out.append(["reduce_first", dim])
            for axis in sorted({0, nd}):
                for keep in ([False, True] if full else [bool(axis)]):
                    out.append(["stack", dim, axis, keep])
                out.append(["flatten", dim, axis])
            for axis in range(min(nd, 2)):
                for bs in ([0, 2, n] if full else [0, 2]):
                    out.append(["concatenate", dim, axis, bs, bool((axis + bs) % 2) if not full else False])
                    if full:
                        out.append(["concatenate", dim, axis, bs, True])
        for idx in ([0, n - 1, [0], [n - 1, 0]] if full else [n - 1, [n - 1, 0]]):
            out.append(["isel", dim, idx])
        if n >= 2:
            out.append(["isel_slice", dim, 0, n - 1])
            if full:
                out.append(["isel_slice", dim, 1, n])
        if r.labels[dim] is not None:
            out.append(["sel_kw", dim, r.labels[dim][0], False])
            if full:
                out.append(["sel_kw", dim, r.labels[dim][-1], True])
            labs = r.labels[dim]
            if n >= 2 and len(set(map(str, labs))) == len(labs):
                others = [d for d in r.dims if d != dim and r.sizes[d] >= 2]
                out.append(["transform_sel", dim, [labs[-1], labs[0]], None])
                if full:
                    out.append(["transform_sel", dim, list(labs), None])
                    out.append(["transform_sel", dim, [labs[-1]], None])
                if others:
                    out.append(["transform_sel", dim, [labs[-1], labs[0]], others[0]])
            for lab in ([labs[0], [labs[-1]], list(labs[::-1])] if full else [labs[-1], list(labs[::-1])]):
                out.append(["sel", dim, lab])
    if nodims >= 1 and nd >= 1 and "e" not in r.dims and "t" not in r.dims:
        for internal in range(nd):
            for size in sorted({1, 2, ish[internal]}):
                if size > ish[internal]:
                    continue
                for axis in sorted({0, nodims}):
                    out.append(["expand", "e", internal, size, axis, None])
                if full or internal == 0:
                    out.append(["expand", "e", internal, size, 0, [f"p{i}" for i in range(size)]])
            # selection criteria given explicitly (indices in an order other than 0..n-1)
            m = ish[internal]
            for crit in ([list(range(m))[::-1], [m - 1], [0, m - 1, 0]] if full else [list(range(m))[::-1]]):
                out.append(["expand_coord", "e", internal, crit, 0])
        for axis in sorted({0, nodims}):
            out.append(["transform", [2, 3], "t", axis, None])
        out.append(["transform", [2, 3], "t", 0, ["s", "r"]])
        out.append(["transform", [2], "t", 0, None])
    labelled = all(r.labels[d] is not None for d in r.dims)
    used = set(getattr(r, "used", set(r.dims)))
    if nodims >= 1:
        for name in fr.NPBIN:
            out.append([name, 2])
            out.append([name, "same", list(ish)])
            out.append([name, "diffcoords", list(ish)])
            if nodims >= 2 and labelled:
                out.append([name, "drop-first-dim", list(ish)])
            if labelled and "w" not in used and (full or name in ("subtract", "divide")):
                out.append([name, "extra-dim", list(ish)])
        if labelled and "w" not in used:
            out.append(["broadcast", "extra-dim", list(ish)])
            out.append(["join", "newlabels-first", r.dims[0], None, list(ish)])
            if "j" not in r.dims:
                out.append(["join", "same", "j", None, list(ish)])
                out.append(["join", "same", "j", ["u", "v"], list(ish)])
    else:
        for name in fr.NPBIN:
            out.append([name, 2])
    return out


def programs(ctx):
    depth = ctx.pick(2, 3)
    progs = []
    for shape in SHAPES:
        for ish in ISHAPES:
            if not ctx.quick or True:
                pass
            r0 = fr.source_ref(0, shape, ish)
            level = [([], r0)]
            for step in range(depth):
                nxt = []
                full = step == 0
                if step >= 1 and (shape in ((5,), (2, 2, 2)) or (ctx.quick and (shape, ish) not in (((3,), (2,)), ((2, 3), (2, 3)), ((4,), (2, 3))))):
                    break
                if step >= 2 and (shape, ish) not in (((3,), (2,)), ((2, 2), (2, 3))):
                    break
                for ops, r in level:
                    if ops and ops[-1][0] == "power" and isinstance(ops[-1][1], str):
                        continue  # x ** y with array exponents leaves the exactly-representable value alphabet: a leaf
                    for op in ops_for(r, full, step):
                        if step >= 2 and op[0] in ("isel", "sel", "sel_kw", "isel_slice", "transform", "expand", "expand_coord", "map_array", "join_match"):
                            continue
                        if op[0] in ("expand", "expand_coord", "transform", "broadcast") and any(o[0] in ((op[0],) if op[0] not in ("expand", "expand_coord") else ("expand", "expand_coord")) for o in ops):
                            continue  # the new dimension's name must be fresh (a squeezed earlier one leaves a scalar coordinate behind)
                        if op[0] == "join" and op[2] == "j" and any(o[0] == "join" and o[2] == "j" for o in ops):
                            continue
                        if op[0] == "join_match" and any(o[0] == "join_match" for o in ops):
                            continue
                        try:
                            r2 = fr.apply_ref(r, op, None)
                        except Exception as e:
                            raise common.HarnessError(f"reference failed on {ops + [op]}: {e!r}")
                        # names of dimensions that ever existed: a squeezed one leaves a scalar coordinate behind
                        r2.used = set(getattr(r, "used", set(r.dims))) | set(r2.dims)
                        progs.append({"shape": list(shape), "ishape": list(ish), "ops": ops + [op]})
                        nxt.append((ops + [op], r2))
                level = nxt
    # members that are all equal (a constant field in every ensemble member): mean and std, batched or not
    for shape, ish in (((3,), (2,)), ((4,), (2, 3)), ((2, 3), (2,))):
        r0 = fr.source_ref(100, shape, ish)
        for dim in r0.dims:
            n = r0.sizes[dim]
            for red in ("std", "mean"):
                for bs in sorted({0, 2, n - 1, n}):
                    for keep in (False, True):
                        progs.append({"shape": list(shape), "ishape": list(ish), "src_tag": 100, "ops": [[red, dim, bs, keep]]})
    return progs


def classify_exception(e, op):
    import traceback

    tb = traceback.extract_tb(e.__traceback__)
    inner = [f for f in tb if "/repo/src" in f.filename]
    if not inner:
        if any("/verif/" in f.filename for f in tb[-1:]):
            raise common.HarnessError(f"harness exception: {e!r}\n{traceback.format_exc()}")
        where = "library"
    else:
        where = f"{inner[-1].filename.split('/')[-1]}:{inner[-1].name}"
    detail = ""
    if op[0] in fr.NPRED or op[0] in ("concatenate", "stack"):
        bs = op[2] if op[0] in fr.NPRED else (op[3] if op[0] == "concatenate" else 0)
        keep = op[3] if op[0] in fr.NPRED else (op[4] if op[0] == "concatenate" else op[3])
        detail = f" (batching {'active' if bs > 1 else 'off'}, keep_dim={keep}{', backend_kwargs given' if op[0] in fr.NPRED and len(op) > 4 else ''})"
    return f"{op[0]}{detail}: {type(e).__name__} in {where}"


def run_program(prog):
    shape, ish = tuple(prog["shape"]), tuple(prog["ishape"])
    a = fr.source_impl(prog.get("src_tag", 0), shape, ish)
    r = fr.source_ref(prog.get("src_tag", 0), shape, ish)
    for k, op in enumerate(prog["ops"]):
        r_before = r
        r = fr.apply_ref(r, op, None)
        try:
            a = fr.apply_impl(a, op, r_before)
        except common.HarnessError:
            raise
        except Exception as e:
            return [({"monitor": "fluent_raised", "cause": classify_exception(e, op)}, f"{prog}: step {k} {op}: {e!r}"[:500], prog)]
    try:
        got = fr.read_action(a)
    except common.HarnessError:
        raise
    except Exception as e:
        return [({"monitor": "graph_evaluation_raised", "cause": f"{prog['ops'][-1][0]}: {type(e).__name__}"}, f"{prog}: {e!r}"[:500], prog)]
    last = prog["ops"][-1]
    diff = fr.compare(got, r, check_order=last[0] in ORDER_OPS and last[0] != "broadcast")
    if diff:
        kind = "values" if diff.startswith("value at") else ("coordinates" if diff.startswith("coordinates") else "dimensions")
        detail = ""
        if last[0] in fr.NPRED:
            detail = f" (batching {'active' if 1 < last[2] < dict(zip(fr.source_ref(0, shape, ish).dims, shape)).get(last[1], 99) else 'off'}, keep_dim={last[3]})"
        return [({"monitor": f"fluent_{kind}_differ", "cause": f"{last[0]}{detail}"}, f"{prog}: {diff}"[:600], prog)]
    return []


def run_chunk(progs):
    out = []
    for p in progs:
        try:
            res = common.with_timeout(run_program, p, 600)
        except common.CaseTimeout:
            res = [({"monitor": "program_hangs", "cause": f"{p['ops'][-1][0]}: building or evaluating the program did not finish within 600 s"}, f"{p}", p)]
        for sig, msg, rp in res:
            out.append((sig, msg, rp))
    return out


def run(ctx):
    progs = programs(ctx)
    progs = common.rotate(progs, ctx.seed)
    nch = 256
    chunks = [progs[i::nch] for i in range(nch) if progs[i::nch]]
    res = common.pmap(run_chunk, chunks)
    for r in res:
        for sig, msg, rp in r:
            ctx.add_violation(common.Violation(sig, msg, rp))
    batched = sum(1 for p in progs if any(o[0] in fr.NPRED and o[2] > 1 for o in p["ops"]))
    distinct = {json.dumps(p, sort_keys=True) for p in progs if len(p["ops"]) > 1 or p["ops"][0][0] != "map"}
    ctx.coverage.update(
        evaluations=len(progs), distinct_nontrivial=len(distinct), exhaustive=True, programs_with_active_batching=batched,
        depth=ctx.pick(2, 3),
        rule="all op sequences up to the depth bound from: map, sum/mean/std/min/max/prod(dim, batch_size in {0,1,2,3,n,n+1}, keep_dim), custom reduce, stack/flatten/concatenate(dim, axis), expand(dim, internal_dim, dim_size, axis, labels), isel/sel, broadcast, join (existing/new dim, labels), add/subtract/multiply/divide/power with a scalar and with another action (equal / different coordinate values), transform; full parameter alphabet at depth 1, reduced (batch_size in {0,2,n}, one keep_dim value per op) below. Non-trivial = anything but a lone map",
    )
    ctx.sample(progs[len(progs) // 2])
    ctx.sample({"shape": [4], "ishape": [2, 3], "ops": [["std", "x", 2, False]], "reference": "np.std(np.stack(values along x), axis=0)"})
    ctx.assume("values are small distinct integers stored as float64 (sums/products exact; mean/std compared with rtol 1e-9); float cancellation in the batched std formula is outside the alphabet",
               "coordinate labels are compared only where the operation documents them (not the synthetic label of a kept reduced dimension)",
               "reduced dimensions have size >= 2 (statement's quantifier)")


def replay(ctx, data):
    return [common.Violation(sig, msg, rp) for sig, msg, rp in run_program(data)]
