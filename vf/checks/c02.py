"""C02 - every task is dispatched exactly once, to a free capable worker, after its inputs exist.
Engine: same exhaustive exploration as C01 with dispatch monitors inside SimCluster.task_sequence/transmit,
jobs extended with GPU tasks over every feasible GPU-worker subset (DESIGN C02)."""
from vf import common, ctrl_family as fam
from vf.simcluster import Config

PROP = "C02"


def configs(ctx):
    batch = ctx.pick(2, 3)
    shapes = ctx.pick(fam.SHAPES_QUICK, fam.SHAPES_THOROUGH)
    specs = fam.curated(ext_modes=("sinks", "all"))
    if not ctx.quick:
        specs = specs + fam.small_dag_specs(5) + fam.dag_variant_specs(4)
    cfgs = [Config(s, h, w, (), batch) for s in specs for (h, w) in shapes]
    cfgs = fam.quick_filter(cfgs) if ctx.quick else cfgs
    return cfgs + fam.gpu_configs(batch) + fam.wide_configs(ctx.quick) + ([] if ctx.quick else fam.gpu_dag_configs(batch))


def _worker_case(arg):
    from vf import worker_clause as wc

    k, order = arg
    return [(m, c, msg, {"worker_clause": True, "k": k, "order": order}) for (m, c, msg) in wc.run_scenario(k, order)]


def run(ctx):
    fam.run_family(ctx, PROP, configs(ctx), max_exec=ctx.pick(60_000, 2_000_000), budget_s=ctx.pick(1500, 6000))
    # worker-side clause: the real worker loop under every arrival order of the command and its input notices
    from vf import worker_clause as wc

    cases = [(k, order) for k, order, _ in wc.scenarios(ctx.pick(2, 3))]
    for res in common.pmap(_worker_case, cases, chunksize=8):
        for (m, c, msg, rp) in res:
            ctx.add_violation(common.Violation({"monitor": m, "cause": c}, msg, rp))
    ctx.coverage["worker_arrival_orders"] = len(cases)
    ctx.coverage["traces_validated_against_impl"] += len(cases)
    ctx.assume(
        "cluster behind the Bridge is the SimCluster reference model; 'busy' is judged from what the controller can know: a worker is free once every publication of its sequence has been delivered",
        "batch bound %d; GPU subsets over <= 4 workers" % ctx.pick(2, 3),
    )


def replay(ctx, data):
    if data.get("worker_clause"):
        return [common.Violation({"monitor": m, "cause": c}, msg, rp) for (m, c, msg, rp) in _worker_case((data["k"], data["order"]))]
    return fam.replay(ctx, data, PROP)
