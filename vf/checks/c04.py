"""C04 - data is never purged, transferred or fetched while missing or still needed.
Engine: exhaustive DFS over event orders/batches of the real controller against SimCluster (DESIGN 2.4, C04)."""
from vf import common, ctrl_family as fam
from vf.simcluster import Config

PROP = "C04"


def configs(ctx):
    batch = ctx.pick(2, 3)
    shapes = ctx.pick(fam.SHAPES_QUICK, fam.SHAPES_THOROUGH)
    specs = fam.curated()
    if not ctx.quick:
        specs = specs + fam.small_dag_specs(5) + fam.dag_variant_specs(4)
    cfgs = [Config(s, h, w, (), batch) for s in specs for (h, w) in shapes]
    extra = [] if ctx.quick else [Config(s, 2, 1, (), 2) for s in fam.small_dag_specs(5, mode="all") if s.name.startswith("dag5")]
    return (fam.quick_filter(cfgs) if ctx.quick else cfgs) + fam.wide_configs(ctx.quick) + extra


def run(ctx):
    cfgs = configs(ctx)
    fam.run_family(ctx, PROP, cfgs, max_exec=ctx.pick(60_000, 2_000_000), budget_s=ctx.pick(1500, 6000))
    ctx.assume(
        "cluster behind the Bridge is the SimCluster reference model (eager causal execution, exactly-once FIFO-per-origin event delivery); bound to the code by conformance replay on vcluster",
        "batch bound %d; jobs <= 5 tasks; shapes %s" % (ctx.pick(2, 3), ctx.pick(fam.SHAPES_QUICK, fam.SHAPES_THOROUGH)),
        "'unanswered' = the DatasetPublished(transmit_idx)/payload of the command has not yet been delivered to the controller",
    )


def replay(ctx, data):
    return fam.replay(ctx, data, PROP)
