"""C17 - every wire and file encoding round-trips over its whole value domain.
Bounded-exhaustive over boundary alphabets: per message class the product of field alphabets, through the real
encoders/decoders (shm api, executor messages incl. multipart framing, controller reports, gateway req/resp,
JobInstance JSON). Structural comparison (class + field values), not ==."""
from __future__ import annotations

import dataclasses
import itertools
import math
import pickle

import orjson

import cascade.controller.report as report
import cascade.executor.comms as comms
import cascade.executor.msg as msg
import cascade.gateway.api as gapi
import cascade.gateway.client as gclient
import cascade.shm.api as shm_api
from cascade.executor.serde import des_message, ser_message
from cascade.low.core import DatasetId, JobInstance, WorkerId

from vf import common
from vf.fakezmq import Net
from vf.jobs import simple_job

PROP = "C17"

INTS = [0, 1, 255, 256, 2**31 - 1, 2**31, 2**32 - 1, 2**32, 2**40, 2**63 - 1]
STRS = ["", "a", "k" * 24, "cloudpickle.loads", "x" * 1000]
NON_ASCII = "klüç"
FLOAT_STATICS = {"half": 0.5, "negzero": -0.0, "max": 1.7976931348623157e308, "inf": float("inf"), "neginf": float("-inf"), "nan": float("nan")}
LONG_LENGTHS = [100, 255, 256, 257, 511, 512, 513, 1023, 1024, 1025, 4096, 65535, 65536, 70000]


def struct_eq(a, b) -> bool:
    if type(a) is not type(b):
        return False
    if dataclasses.is_dataclass(a):
        return all(struct_eq(getattr(a, f.name), getattr(b, f.name)) for f in dataclasses.fields(a))
    if isinstance(a, (list, tuple)):
        return len(a) == len(b) and all(struct_eq(x, y) for x, y in zip(a, b))
    if isinstance(a, dict):
        return a.keys() == b.keys() and all(struct_eq(a[k], b[k]) for k in a)
    if isinstance(a, (set, frozenset)):
        return a == b
    if hasattr(type(a), "model_fields"):
        # field by field on the objects themselves: model_dump() would hide a field that the model excludes from dumps
        return all(struct_eq(getattr(a, f), getattr(b, f)) for f in type(a).model_fields)
    if hasattr(a, "__dict__") and not isinstance(a, type):
        return struct_eq(vars(a), vars(b))
    return a == b


class Acc:
    def __init__(self):
        self.n = 0
        self.nontrivial = set()
        self.viol: list = []
        self.samples: list = []

    def bad(self, monitor, cause, msg_, rp):
        self.viol.append(({"monitor": monitor, "cause": cause}, msg_, rp))


# ------------------------------------------------------------------ shm api
def shm_classes():
    S, I = "str", "int"
    return {
        "GetRequest": {"key": S}, "PurgeRequest": {"key": S}, "DatasetStatusRequest": {"key": S},
        "DatasetStatusResponse": {"status": "status"},
        "GetResponse": {"shmid": S, "l": I, "rdid": S, "error": S, "deser_fun": S},
        "AllocateRequest": {"key": S, "l": I, "deser_fun": S},
        "AllocateResponse": {"shmid": S, "error": S},
        "CloseCallback": {"key": S, "rdid": S},
        "ShutdownCommand": {}, "StatusInquiry": {}, "FreeSpaceRequest": {},
        "OkResponse": {"error": S},
        "FreeSpaceResponse": {"free_space": I},
    }


def shm_case(cname: str, kwargs: dict, acc: Acc):
    cls = getattr(shm_api, cname, None)
    rp = {"family": "shm", "cls": cname, "kwargs": kwargs}
    if cls is None:
        acc.bad("shm_class_missing", cname, f"cascade.shm.api.{cname} does not exist", rp)
        return
    acc.n += 1
    m = cls(**kwargs)
    try:
        raw = shm_api.ser(m)
    except Exception as e:
        big = [k for k, v in kwargs.items() if isinstance(v, int) and v >= 2**32]
        cause = f"{cname}: {type(e).__name__} on in-domain value" + (f" (field {big[0]} >= 2^32)" if big else "")
        acc.bad("shm_encode_raised", cause, f"{cname}({kwargs}) -> {e!r}"[:300], rp)
        return
    try:
        back = shm_api.deser(raw)
    except Exception as e:
        acc.bad("shm_decode_raised", f"{cname}: {type(e).__name__}", f"{cname}({kwargs}) -> {e!r}"[:300], rp)
        return
    if not struct_eq(m, back):
        diff = [k for k in kwargs if getattr(back, k, None) != kwargs[k]] if type(back) is cls else ["<class>"]
        acc.bad("shm_roundtrip_mismatch", f"{cname}: field {diff[0] if diff else '?'} differs after decode", f"{m!r} -> {back!r}"[:400], rp)
    if any((isinstance(v, int) and not isinstance(v, bool) and v >= 256) or (isinstance(v, str) and len(v) != 1) for v in kwargs.values()):
        acc.nontrivial.add((cname, tuple(sorted((k, str(v)[:30]) for k, v in kwargs.items()))))


def run_shm(acc: Acc):
    for cname, fields in shm_classes().items():
        alph = []
        for f, t in fields.items():
            if t == "str":
                alph.append(STRS if len(fields) <= 3 else STRS[:4])
            elif t == "int":
                alph.append(INTS)
            else:
                alph.append(list(shm_api.DatasetStatus))
        for combo in itertools.product(*alph):
            shm_case(cname, dict(zip(fields, combo)), acc)
        # one field at a time over a finer length scale (all other fields at a short base value): every string field of
        # every class with lengths around 2^8, 2^9, 2^10, 2^16, and all printable ASCII characters
        for f, t in fields.items():
            if t != "str":
                continue
            base = {g: ("b" if u == "str" else 7 if u == "int" else shm_api.DatasetStatus.ready) for g, u in fields.items()}
            for n in LONG_LENGTHS:
                shm_case(cname, dict(base, **{f: ("e%d-" % n + "y" * n)[:n]}), acc)
            shm_case(cname, dict(base, **{f: "".join(chr(c) for c in range(32, 127))}), acc)
        # out-of-domain: non-ascii strings must be rejected at encode time, negative ints too
        for f, t in fields.items():
            base = {g: ("a" if u == "str" else 1 if u == "int" else shm_api.DatasetStatus.ready) for g, u in fields.items()}
            bad_val = NON_ASCII if t == "str" else (-1 if t == "int" else None)
            if bad_val is None:
                continue
            base[f] = bad_val
            acc.n += 1
            cls = getattr(shm_api, cname)
            try:
                raw = shm_api.ser(cls(**base))
            except Exception:
                continue
            try:
                back = shm_api.deser(raw)
                same = struct_eq(cls(**base), back)
            except Exception:
                same = False
            if not same:
                acc.bad("shm_out_of_domain_accepted", f"{cname}.{f}: out-of-domain value encoded without error and not recovered", f"{base}", {"family": "shm-ood", "cls": cname, "field": f})
    acc.samples.append({"family": "shm", "cls": "AllocateRequest", "kwargs": {"key": "k" * 24, "l": 2**32, "deser_fun": "cloudpickle.loads"}})


# ------------------------------------------------------------------ executor messages
def exec_messages():
    w = WorkerId("h0", "w1")
    d = DatasetId("task.with.dots", "0")
    d2 = DatasetId("", "")
    byts = [b"", b"\x00", bytes(range(256)) * 256]
    out = [
        msg.Syn(0, ""), msg.Syn(2**40, "tcp://host:1"), msg.Ack(0), msg.Ack(2**63 - 1),
        msg.TaskSequence(worker=w, tasks=[], publish=set()),
        msg.TaskSequence(worker=w, tasks=["a", "b"], publish={d, d2}),
        msg.TaskFailure(worker=w, task=None, detail=""), msg.TaskFailure(worker=w, task="t", detail="x" * 1000),
        msg.DatasetPublished(origin=w, ds=d, transmit_idx=None), msg.DatasetPublished(origin="h0", ds=d2, transmit_idx=0),
        msg.DatasetPublished(origin="h0", ds=d, transmit_idx=2**40),
        msg.DatasetPurge(ds=d),
        msg.DatasetTransmitCommand(source="h0", target="controller", daddress="tcp://x:1", ds=d, idx=0),
        msg.DatasetTransmitFailure(host="h0", detail=""),
        msg.ExecutorFailure(host="h0", detail="e"), msg.ExecutorExit(host=""),
        msg.ExecutorRegistration(host="h0", maddress="m", daddress="d", workers=[]),
        msg.ExecutorRegistration(host="h0", maddress="m", daddress="d", workers=[msg.Worker(worker_id=w, cpu=1, gpu=0, memory_mb=2**40)]),
        msg.ExecutorShutdown(), msg.WorkerReady(worker=w), msg.WorkerShutdown(),
    ]
    for b in byts:
        for deser in ["cloudpickle.loads", ""]:
            out.append(msg.DatasetTransmitPayload(header=msg.DatasetTransmitPayloadHeader(confirm_address="tcp://a:1", confirm_idx=7, ds=d, deser_fun=deser), value=b))
    return out


def run_exec(acc: Acc):
    ms = exec_messages()
    classes = set()
    declared = set(msg.Message.__args__)
    for m in ms:
        acc.n += 1
        classes.add(type(m))
        rp = {"family": "exec", "repr": repr(m)[:200]}
        if not isinstance(m, msg.DatasetTransmitPayload):
            back = des_message(ser_message(m))
            if not struct_eq(m, back):
                acc.bad("exec_roundtrip_mismatch", type(m).__name__, f"{m!r} -> {back!r}"[:300], rp)
        acc.nontrivial.add(repr(m)[:120])
    missing = declared - classes - {msg.DatasetTransmitPayload}
    if missing - {msg.DatasetTransmitPayload}:
        raise common.HarnessError(f"message classes without a sample: {missing}")
    # framing through the real send paths and the real Listener
    common.seam(comms, "zmq")
    common.seam(comms, "get_context")
    net = Net()
    old = (comms.zmq, comms.get_context)
    comms.zmq = net
    comms.get_context = lambda: net.Context()
    try:
        listener = comms.Listener("inproc://L")
        back_listener = comms.Listener("inproc://S")
        sender = comms.ReliableSender("inproc://S", 800)
        sender.add_host("peer", "inproc://L")
        idx = 0
        for m in ms:
            rp = {"family": "exec-framing", "repr": repr(m)[:200]}
            if isinstance(m, msg.Syn):
                continue  # Syn is the framing prefix itself, never an application message
            for path in ("callback", "reliable", "send_data"):
                if path == "send_data" and not isinstance(m, msg.DatasetTransmitPayload):
                    continue
                if path != "send_data" and isinstance(m, msg.DatasetTransmitPayload):
                    continue  # payloads only ever travel through send_data
                acc.n += 1
                if path == "callback":
                    comms.callback("inproc://L", m)
                elif path == "reliable":
                    sender.send("peer", m)
                else:
                    idx += 1
                    comms.send_data("inproc://L", m, msg.Syn(10_000 + idx, "inproc://S"))
                try:
                    got = listener.recv_messages(0)
                except Exception as e:
                    acc.bad("exec_framing_raised", f"{type(m).__name__} via {path}: {type(e).__name__} on a well-formed message", f"sent {m!r}: {e!r}"[:300], rp)
                    net.queues["inproc://L"].clear()
                    back_listener.recv_messages(0)
                    continue
                if len(got) != 1 or not struct_eq(got[0], m):
                    acc.bad("exec_framing_mismatch", f"{type(m).__name__} via {path}", f"sent {m!r} got {got!r}"[:300], rp)
                acks = back_listener.recv_messages(0)
                if path != "callback" and (len(acks) != 1 or not isinstance(acks[0], msg.Ack)):
                    acc.bad("exec_framing_no_ack", f"{type(m).__name__} via {path}", f"{acks!r}"[:200], rp)
    finally:
        comms.zmq, comms.get_context = old
    acc.samples.append({"family": "exec-framing", "message": repr(ms[5])})


# ------------------------------------------------------------------ controller report
def run_report(acc: Acc):
    d = DatasetId("t", "0")
    results = [[], [(d, b"")], [(d, b"\x00\xff"), (DatasetId("u", "1"), bytes(70000))]]
    for job_id, status, ts, res in itertools.product(["", "job-1"], [None, "0.00", "Shutdown", "99.99"], [0, 2**40, 2**63 - 1], results):
        acc.n += 1
        r = report.ControllerReport(job_id, status, ts, res)
        back = report.deserialize(report.serialize(r))
        if not struct_eq(r, back):
            acc.bad("report_roundtrip_mismatch", "ControllerReport", f"{r!r} -> {back!r}"[:300], {"family": "report"})
        acc.nontrivial.add((job_id, status, ts, len(res)))
    acc.n += 1
    try:
        report.deserialize(pickle.dumps({"not": "a report"}))
        acc.bad("report_accepts_garbage", "non-report object accepted", "", {"family": "report"})
    except TypeError:
        pass
    acc.samples.append({"family": "report", "report": repr(report.ControllerReport("job-1", "50.00", 2**40, [(d, b"ab")]))})


# ------------------------------------------------------------------ gateway
def gateway_pairs():
    job = simple_job("mixed-kw", 3, [(0, 2), (1, 2)], "all", kw_edges=[(1, 2)], outs={0: ["a", "b"]}).build()
    d = DatasetId("t0", "a")
    specs = [
        gapi.JobSpec(benchmark_name="generators", envvars={"A": "1"}, job_instance=None, workers_per_host=1, hosts=1, use_slurm=False),
        gapi.JobSpec(benchmark_name=None, envvars={}, job_instance=job, workers_per_host=2, hosts=3, use_slurm=True),
    ]
    reqs = [gapi.SubmitJobRequest(job=s) for s in specs] + [
        gapi.JobProgressRequest(job_ids=[]), gapi.JobProgressRequest(job_ids=["a", "b"]),
        gapi.ResultRetrievalRequest(job_id="j", dataset_id=d), gapi.ResultRetrievalRequest(job_id="", dataset_id=DatasetId("", "")),
        gapi.ShutdownRequest(),
    ]
    resps = {
        "SubmitJob": [gapi.SubmitJobResponse(job_id="j", error=None), gapi.SubmitJobResponse(job_id=None, error="boom")],
        "JobProgress": [gapi.JobProgressResponse(progresses={}, error=None), gapi.JobProgressResponse(progresses={"a": "0.00", "b": "Shutdown"}, error=None),
                        gapi.JobProgressResponse(progresses={}, error="KeyError('x')")],
        "ResultRetrieval": [gapi.ResultRetrievalResponse(result="YWJj", error=None), gapi.ResultRetrievalResponse(result=None, error="e"), gapi.ResultRetrievalResponse(result="", error=None)],
        "Shutdown": [gapi.ShutdownResponse(error=None), gapi.ShutdownResponse(error="e")],
    }
    return reqs, resps


def run_gateway(acc: Acc):
    common.seam(gclient, "zmq")
    reqs, resps = gateway_pairs()
    net = Net()
    old = gclient.zmq
    gclient.zmq = net
    try:
        for req in reqs:
            stem = type(req).__name__[: -len("Request")]
            for resp in resps[stem]:
                acc.n += 1
                seen = {}

                def responder(raw: bytes) -> bytes:
                    seen["req"] = gclient.parse_request(raw)
                    return gclient.serialize_response(resp)

                net.responders["tcp://gw:1"] = responder
                rp = {"family": "gateway", "req": repr(req)[:200], "resp": repr(resp)[:200]}
                try:
                    got = gclient.request_response(req, "tcp://gw:1")
                except Exception as e:
                    acc.bad("gateway_roundtrip_raised", f"{stem}: {type(e).__name__}", f"{req!r}/{resp!r}: {e!r}"[:400], rp)
                    continue
                if not struct_eq(seen.get("req"), req):
                    acc.bad("gateway_request_mismatch", stem, f"{req!r} -> {seen.get('req')!r}"[:400], rp)
                if not struct_eq(got, resp):
                    acc.bad("gateway_response_mismatch", stem, f"{resp!r} -> {got!r}"[:400], rp)
                acc.nontrivial.add((repr(req)[:80], repr(resp)[:80]))
        # a response must not be accepted as a request and vice versa
        acc.n += 2
        try:
            gclient.parse_request(gclient.serialize_response(gapi.ShutdownResponse(error=None)))
            acc.bad("gateway_accepts_wrong_kind", "response parsed as request", "", {"family": "gateway"})
        except ValueError:
            pass
        try:
            gclient.serialize_response(gapi.ShutdownRequest())
            acc.bad("gateway_accepts_wrong_kind", "request serialised as response", "", {"family": "gateway"})
        except ValueError:
            pass
    finally:
        gclient.zmq = old
    acc.samples.append({"family": "gateway", "request": repr(reqs[3]), "response": repr(resps["JobProgress"][1])})


# ------------------------------------------------------------------ JobInstance JSON
def run_jobjson(acc: Acc, maxn: int):
    from vf.checks.c16 import VARIANTS, make_spec
    from vf.jobs import all_dags

    specs = []
    for n in range(1, maxn + 1):
        for es in all_dags(n):
            for v in VARIANTS:
                specs.append(make_spec(n, es, v))
    specs.append(simple_job("mixed-kw", 3, [(0, 2), (1, 2)], "all", kw_edges=[(1, 2)]))
    specs.append(simple_job("gpu", 2, [(0, 1)], "sinks", gpu=[1]))
    # float statics: ordinary, negative zero, the largest finite double, and the non-finite ones JSON has no token for
    for fname, fval in FLOAT_STATICS.items():
        sp = simple_job(f"float-static/{fname}", 1, [], "sinks")
        sp.tasks["t0"]["kw"]["v"] = fval
        specs.append(sp)
    for spec in specs:
        acc.n += 1
        job = spec.build()
        if spec.edges:
            job.ext_outputs = [job.edges[0].source]
            job.serdes = {"enc": ("mod.ser", "mod.des")}
        try:
            raw = orjson.dumps(job.dict())
        except Exception as e:
            if spec.name.startswith("float-static/") and not math.isfinite(FLOAT_STATICS[spec.name.split("/")[1]]):
                continue  # rejected at encode time: what the statement asks for values the encoding cannot carry
            acc.bad("jobjson_raised", type(e).__name__, f"{spec.name}: {e!r}"[:300], {"family": "jobjson", "spec": spec.describe()})
            continue
        try:
            back = JobInstance(**orjson.loads(raw))
        except Exception as e:
            acc.bad("jobjson_raised", type(e).__name__, f"{spec.name}: {e!r}"[:300], {"family": "jobjson", "spec": spec.describe()})
            continue
        if spec.name.startswith("float-static/"):
            want, got = FLOAT_STATICS[spec.name.split("/")[1]], back.tasks["t0"].static_input_kw.get("v")
            if not (isinstance(got, float) and (got == want or (want != want and got != got)) and math.copysign(1, got) == math.copysign(1, want)):
                cause = "a non-finite float is neither carried nor rejected at encode time: it silently becomes null" if not math.isfinite(want) else "a finite float static changed"
                acc.bad("jobjson_mismatch", cause, f"{spec.name}: {want!r} -> {got!r}", {"family": "jobjson", "spec": spec.name})
            acc.nontrivial.add(spec.name)
            continue
        ok = (
            list(back.tasks) == list(job.tasks)
            and all(struct_eq(back.tasks[t], job.tasks[t]) for t in job.tasks)
            and [(e.source, e.sink_task, e.sink_input_kw, e.sink_input_ps) for e in back.edges] == [(e.source, e.sink_task, e.sink_input_kw, e.sink_input_ps) for e in job.edges]
            and back.ext_outputs == job.ext_outputs
            and {k: tuple(v) for k, v in back.serdes.items()} == {k: tuple(v) for k, v in job.serdes.items()}
        )
        if not ok:
            acc.bad("jobjson_mismatch", "JobInstance differs after JSON round trip", f"{spec.name}", {"family": "jobjson", "spec": spec.describe()})
        if spec.edges:
            acc.nontrivial.add(spec.name)
    acc.samples.append({"family": "jobjson", "spec": specs[-2].describe()})


# ------------------------------------------------------------------ dataset values (ser_output / des_output)
class Grid:
    def __init__(self, v):
        self.v = v

    def __eq__(self, o):
        return type(o) is type(self) and o.v == self.v


class MaskedGrid(Grid):
    pass


def grid_ser(g) -> bytes:
    return b"G" + str(g.v).encode()


def grid_des(b) -> "Grid":
    return Grid(int(bytes(b)[1:]))


def run_output_serde(acc: Acc):
    import numpy as np

    import cascade.executor.serde as serde

    saved = dict(serde.SerdeRegistry.serde)
    try:
        for registered in ([], [Grid], [Grid, int]):
            serde.SerdeRegistry.serde = dict(saved)
            try:
                for t in registered:
                    if t is Grid:
                        serde.SerdeRegistry.register(Grid, "vf.checks.c17.grid_ser", "vf.checks.c17.grid_des")
                    else:
                        serde.SerdeRegistry.register(int, "vf.checks.c17.int_ser", "vf.checks.c17.int_des")
            except Exception as e:
                acc.n += 1
                acc.bad("serde_register_raised", f"{type(e).__name__} registering a serde by its dotted name (module nested three levels deep)", f"{e!r}", {"family": "output-serde", "registered": [t.__name__ for t in registered]})
                continue
            values = [0, 7, True, "", "s", b"\x00", [1, "a"], {"k": (1, 2)}, None, np.arange(3.0), Grid(5), MaskedGrid(6), 2**70]
            for v in values:
                acc.n += 1
                rp = {"family": "output-serde", "value": repr(v)[:60], "registered": [t.__name__ for t in registered]}
                try:
                    raw, des = serde.ser_output(v, "Any")
                    back = serde.des_output(raw, "Any", des)
                except Exception as e:
                    acc.bad("output_serde_raised", f"{type(v).__name__}: {type(e).__name__}", f"{rp}: {e!r}"[:300], rp)
                    continue
                same = type(back) is type(v) and (np.array_equal(back, v) if isinstance(v, np.ndarray) else back == v)
                if not same:
                    acc.bad("output_serde_mismatch", f"value of type {type(v).__name__} comes back as {type(back).__name__}" + (" (a registered serde was applied to an unregistered subclass)" if registered else ""), f"{rp}: {back!r}", rp)
                acc.nontrivial.add((repr(v)[:30], len(registered)))
    finally:
        serde.SerdeRegistry.serde = saved
    acc.samples.append({"family": "output-serde", "value": "MaskedGrid(6) with a serde registered for its base class Grid only", "expect": "comes back as MaskedGrid (falls back to cloudpickle)"})


def int_ser(v) -> bytes:
    return str(int(v)).encode()


def int_des(b) -> int:
    return int(bytes(b))


FAMILIES = {"shm": run_shm, "exec": run_exec, "report": run_report, "gateway": run_gateway, "output-serde": run_output_serde}


def run(ctx):
    acc = Acc()
    for f in FAMILIES.values():
        f(acc)
    run_jobjson(acc, ctx.pick(4, 5))
    for sig, m, rp in acc.viol:
        ctx.add_violation(common.Violation(sig, m, rp))
    ctx.coverage.update(
        evaluations=acc.n, distinct_nontrivial=len(acc.nontrivial), exhaustive=True,
        rule="product of per-field boundary alphabets (ints %s; strings of length 0,1,24,17,1000; non-ASCII/negative as out-of-domain) for each of the 13 shm classes; one or more instances of every executor message class through pickle, callback, ReliableSender and send_data framing into the real Listener; ControllerReport x {0,1,2 results}; all gateway request x response pairs over the real client encoder/decoder; JobInstance JSON over all DAGs n<=%d x 4 variants. Non-trivial = carries a boundary value / at least one edge" % (INTS, ctx.pick(4, 5)),
    )
    ctx.samples.extend(acc.samples[:5])
    ctx.assume("exhaustive over the stated alphabets, NOT over the 64-bit integer or string domains",
               "shm UDP datagram size limits (recvfrom(1024)) are a transport matter outside the codec round trip")


def replay(ctx, data):
    acc = Acc()
    fam = data.get("family", "")
    if fam == "shm":
        kw = dict(data["kwargs"])
        if "status" in kw:
            kw["status"] = shm_api.DatasetStatus(int(kw["status"]))
        shm_case(data["cls"], kw, acc)
    elif fam == "shm-ood":
        run_shm(acc)
    elif fam.startswith("exec"):
        run_exec(acc)
    elif fam == "report":
        run_report(acc)
    elif fam == "gateway":
        run_gateway(acc)
    elif fam == "output-serde":
        run_output_serde(acc)
    elif fam == "jobjson":
        run_jobjson(acc, 4)
    return [common.Violation(sig, m, rp) for sig, m, rp in acc.viol]
