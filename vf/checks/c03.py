"""C03 - a feasible job always completes: no deadlock, livelock or scheduler crash.
Engine: same exhaustive exploration; job family widened (empty job, isolated tasks, more/fewer components than hosts,
GPU components); progress and termination monitors (DESIGN C03)."""
from vf import common, ctrl_family as fam
from vf.simcluster import Config

PROP = "C03"


def configs(ctx):
    batch = ctx.pick(2, 3)
    shapes = ctx.pick(fam.SHAPES_QUICK, fam.SHAPES_THOROUGH)
    specs = fam.curated(ext_modes=("sinks", "all")) + fam.widened_c03()
    if not ctx.quick:
        specs = specs + fam.small_dag_specs(5) + fam.dag_variant_specs(4)
    cfgs = [Config(s, h, w, (), batch) for s in specs for (h, w) in shapes]
    cfgs = fam.quick_filter(cfgs) if ctx.quick else cfgs
    return cfgs + fam.gpu_configs(batch) + fam.wide_configs(ctx.quick) + ([] if ctx.quick else fam.gpu_dag_configs(batch))


def run(ctx):
    fam.run_family(ctx, PROP, configs(ctx), max_exec=ctx.pick(60_000, 2_000_000), budget_s=ctx.pick(1500, 6000))
    ctx.assume(
        "every event the cluster produces is delivered exactly once (C06 discharges this); the event supply is finite, so the complete DFS covers every fair delivery order",
        "batch bound %d" % ctx.pick(2, 3),
    )


def replay(ctx, data):
    return fam.replay(ctx, data, PROP)
