"""C16 - the preschedule is a faithful structural summary of the job DAG.
Bounded-exhaustive: every DAG on n <= 5 (quick) / 6 (thorough) labelled tasks (edges i<j), in four variants
(single output; two-output producers; every edge doubled into a multi-edge; reversed task insertion order),
through the real precompute(), compared with a networkx reference."""
from __future__ import annotations

import networkx as nx

from cascade.low.core import DatasetId
import cascade.scheduler.graph as sgraph
from cascade.scheduler.graph import precompute

from vf import common
from vf.jobs import JobSpec, all_dags

PROP = "C16"
VARIANTS = ("plain", "multiout", "multiedge", "reversed", "dupparam", "nooutput")


def make_spec(n: int, es: list, variant: str) -> JobSpec:
    tasks = {}
    edges = []
    order = list(range(n))
    if variant == "reversed":
        order = order[::-1]
    for i in order:
        if variant == "nooutput":
            # the library's placeholder name for "this task produces nothing worth keeping": alone on tasks without
            # consumers, next to the real output elsewhere
            outs = ["0", "__NO_OUTPUT__"] if any(a == i for a, _ in es) else ["__NO_OUTPUT__"]
        else:
            outs = ["a", "b"] if variant in ("multiout", "multiedge") else ["0"]
        tasks[f"t{i}"] = {"outs": outs, "ps": {}, "kw": {}}
    pos = {j: 0 for j in range(n)}
    for k, (i, j) in enumerate(es):
        if variant == "dupparam":  # one dataset feeds two parameters of the same consumer
            edges.append((f"t{i}", "0", f"t{j}", pos[j]))
            edges.append((f"t{i}", "0", f"t{j}", f"kw{i}"))
            pos[j] += 1
        elif variant == "multiedge":
            edges.append((f"t{i}", "a", f"t{j}", pos[j]))
            edges.append((f"t{i}", "b", f"t{j}", pos[j] + 1))
            pos[j] += 2
        else:
            o = "0" if variant in ("plain", "reversed", "nooutput") else ("a" if k % 2 == 0 else "b")
            edges.append((f"t{i}", o, f"t{j}", pos[j]))
            pos[j] += 1
    return JobSpec(f"n{n}:{es}:{variant}", tasks, edges, [])


def reference(job):
    g = nx.DiGraph()
    g.add_nodes_from(job.tasks)
    for e in job.edges:
        g.add_edge(e.source.task, e.sink_task)
    comps = [set(c) for c in nx.weakly_connected_components(g)]
    edge_o, edge_i = {}, {}
    for e in job.edges:
        edge_o.setdefault(e.source, set()).add(e.sink_task)
        edge_i.setdefault(e.sink_task, set()).add(e.source)
    task_o = {t: {DatasetId(t, o) for o in inst.definition.output_schema} for t, inst in job.tasks.items()}
    per = {}
    for c in comps:
        sub = g.subgraph(c)
        sinks = [v for v in c if sub.out_degree(v) == 0]
        depth = nx.dag_longest_path_length(sub) + 1
        dist = dict(nx.all_pairs_shortest_path_length(sub))  # dist[a][c] for c reachable from a
        value = {t: depth - min(dist[t][s] for s in sinks if s in dist[t]) for t in c}
        dm = {}
        for a in c:
            dm[a] = {}
            for b in c:
                if a == b:
                    dm[a][b] = 0
                    continue
                best = depth
                for x in c:
                    if x in dist[a] and x in dist[b]:
                        best = min(best, max(dist[a][x], dist[b][x]))
                dm[a][b] = best
        per[frozenset(c)] = (depth, value, dm, {v for v in c if sub.in_degree(v) == 0})
    return comps, edge_o, edge_i, task_o, per


def check_one(arg):
    n, es, variant = arg
    spec = make_spec(n, es, variant)
    job = spec.build()
    out = []

    def bad(monitor, cause, msg):
        out.append(({"monitor": monitor, "cause": cause}, f"{spec.name}: {msg}", {"n": n, "edges": es, "variant": variant}))

    common.seam(sgraph, "ThreadPoolExecutor")
    sgraph.ThreadPoolExecutor = common.InlinePool  # the pool is only a speed-up; inline keeps a hang interruptible
    try:
        pre = common.with_timeout(precompute, job, 120.0)
    except common.CaseTimeout:
        bad("precompute_hang", "precompute did not return within 120 s", "")
        return out
    except Exception as e:
        bad("precompute_raised", type(e).__name__, repr(e)[:300])
        return out
    comps, edge_o, edge_i, task_o, per = reference(job)
    got_parts = [set(c.nodes) for c in pre.components]
    if sorted(map(sorted, got_parts)) != sorted(map(sorted, comps)) or sum(len(c.nodes) for c in pre.components) != len(job.tasks):
        bad("components", "partition differs from the weakly connected components", f"{got_parts} vs {comps}")
        return out
    sizes = [len(c.nodes) for c in pre.components]
    if sizes != sorted(sizes, reverse=True):
        bad("component_order", "components not sorted heaviest first", f"{sizes}")
    if {k: set(v) for k, v in pre.edge_o.items() if v} != edge_o:
        bad("edge_o", "consumers per dataset differ from the edges", f"{dict(pre.edge_o)} vs {edge_o}")
    if {k: set(v) for k, v in pre.edge_i.items() if v} != edge_i:
        bad("edge_i", "inputs per task differ from the edges", f"{dict(pre.edge_i)} vs {edge_i}")
    if {k: set(v) for k, v in pre.task_o.items()} != task_o:
        bad("task_o", "outputs per task differ from the schema", f"{pre.task_o} vs {task_o}")
    for c in pre.components:
        depth, value, dm, sources = per[frozenset(c.nodes)]
        if len(set(c.nodes)) != len(c.nodes):
            bad("component_nodes", "a task listed twice in a component", f"{c.nodes}")
        if set(c.sources) != sources or len(set(c.sources)) != len(c.sources):
            bad("sources", "sources differ from the tasks without inputs", f"{c.sources} vs {sources}")
        if c.depth != depth:
            bad("depth", "depth differs from the number of longest-path layers", f"{c.depth} vs {depth} in {c.nodes}")
            continue
        if dict(c.value) != value:
            bad("value", "value differs from depth - distance to the nearest sink", f"{dict(c.value)} vs {value}")
        got_dm = {a: {b: c.distance_matrix[a][b] for b in c.nodes} for a in c.nodes}
        if got_dm != dm:
            bad("distance_matrix", "distance differs from the nearest-common-descendant definition", f"{got_dm} vs {dm}")
    return out


def cases(ctx):
    maxn = ctx.pick(5, 6)
    out = []
    for n in range(1, maxn + 1):
        for es in all_dags(n):
            for v in VARIANTS:
                if n == 6 and v in ("multiedge", "reversed", "dupparam") and len(es) > 9:
                    continue  # thorough: dense 6-node DAGs only in two variants (cost)
                out.append((n, es, v))
    return out


def run(ctx):
    cs = common.rotate(cases(ctx), ctx.seed)
    chunks = [cs[i::64] for i in range(64)]
    res = common.pmap(lambda ch: [check_one(a) for a in ch], chunks)
    nontrivial = set()
    for (n, es, v) in cs:
        if es:
            nontrivial.add((n, tuple(es), v))
    for ch in res:
        for r in ch:
            for sig, msg, rp in r:
                ctx.add_violation(common.Violation(sig, msg, rp))
    ctx.coverage.update(
        evaluations=len(cs), distinct_nontrivial=len(nontrivial), exhaustive=True,
        rule="every edge set over n<=%d topologically labelled tasks x variants %s; non-trivial = has at least one edge; "
             "reference: networkx weakly connected components, longest path, all-pairs shortest paths" % (ctx.pick(5, 6), list(VARIANTS)),
    )
    ctx.sample({"n": 4, "edges": [[0, 1], [0, 2], [1, 3], [2, 3]], "variant": "multiout", "job": make_spec(4, [(0, 1), (0, 2), (1, 3), (2, 3)], "multiout").describe()})
    ctx.sample({"n": cs[0][0], "edges": cs[0][1], "variant": cs[0][2]})
    ctx.assume("only the Python fallback of nearest_common_descendant is reachable (coptrs is not installed)",
               "bounded to n<=%d tasks; larger DAGs are outside the bound" % ctx.pick(5, 6))


def replay(ctx, data):
    return [common.Violation(sig, msg, rp) for sig, msg, rp in check_one((data["n"], [tuple(e) for e in data["edges"]], data["variant"]))]
