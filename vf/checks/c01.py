"""C01 - a distributed run returns exactly the values sequential evaluation would.
Engine: exhaustive DFS over event orders/batches of the real controller against SimCluster; values flow through the
real runner.run / Memory / serde and are compared with the sequential interpreter (DESIGN C01)."""
from vf import common, ctrl_family as fam
from vf.simcluster import Config, config_from_json, explore

PROP = "C01"


def configs(ctx):
    batch = ctx.pick(2, 3)
    shapes = ctx.pick(fam.SHAPES_QUICK, fam.SHAPES_THOROUGH)
    specs = fam.curated()
    if not ctx.quick:
        specs = specs + fam.small_dag_specs(5) + fam.dag_variant_specs(4)
    cfgs = [Config(s, h, w, (), batch) for s in specs for (h, w) in shapes]
    extra = [] if ctx.quick else [Config(s, 2, 1, (), 2) for s in fam.small_dag_specs(5, mode="all") if s.name.startswith("dag5")]
    return (fam.quick_filter(cfgs) if ctx.quick else cfgs) + fam.wide_configs(ctx.quick) + extra


def run(ctx):
    fam.run_family(ctx, PROP, configs(ctx), max_exec=ctx.pick(60_000, 2_000_000), budget_s=ctx.pick(1500, 6000))
    # the real stack end to end (vcluster), default schedule plus every single schedule deviation
    from vf import vc_explore

    names = ctx.pick(["diamond/all", "multi/split"], ["diamond/all", "multi/split", "mixed-kw", "fork/root-requested", "multi/mid"])
    shapes = ctx.pick([(1, 2), (2, 1)], [(1, 2), (2, 1), (2, 2)])
    vcfgs = [Config(s, h, w, (), 1) for s in fam.curated() if s.name in names for (h, w) in shapes]
    n = vc_explore.explore(ctx, vcfgs, PROP, bound=1)
    ctx.coverage["vcluster_executions_delay_bound_1"] = n
    ctx.coverage["traces_validated_against_impl"] += n
    ctx.assume(
        "cluster behind the Bridge is the SimCluster reference model (eager causal execution, exactly-once FIFO-per-origin event delivery)",
        "task callables are term constructors; value equality = equality of the whole expression tree",
        "batch bound %d; jobs <= 5 tasks" % ctx.pick(2, 3),
    )


def replay(ctx, data):
    if data.get("vcluster"):
        from vf import vc_explore

        return vc_explore.replay(data)
    if data.get("choices") == [] and "explore" in data:
        res = explore(config_from_json(data["config"]))
        if res["stats"]["outcomes"] > 1:
            return [common.Violation({"monitor": "schedule_dependent_outcome", "cause": "more than one terminal outcome for one configuration"}, str(res["outcome_set"][:3]), data)]
        return []
    return fam.replay(ctx, data, PROP)
