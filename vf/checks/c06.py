"""C06 - acknowledged messaging delivers each message exactly once despite loss or duplication.
(a) protocol core: explicit-state BFS over two endpoints, each a real ReliableSender + real Listener over the fake zmq
    with an in-flight stage (send / deliver / drop / duplicate / receive tick / retry tick), fault budget F,
    max_retries_per_message lowered to 3 so that giving up is inside the space; fair-closure oracle in every state.
(b) the two real receive loops (Bridge.recv_events, Executor.recv_loop) stepped one pass at a time under the same faults.
(c) framing: every frame sequence of length 0-4 over {Syn, Syn', payload header, message, raw bytes} into Listener._recv_one.
"""
from __future__ import annotations

import itertools
import pickle
import types

import cascade.executor.comms as comms
import cascade.executor.msg as msg
from cascade.executor.serde import ser_message
from cascade.low.core import DatasetId

from vf import bfs, common
from vf.fakezmq import Net

PROP = "C06"
GRACE_MS = 800
MAX_RETRIES = 3


class Pair:
    """two endpoints X and Y, each with a real Listener and a real ReliableSender towards the other"""

    def __init__(self, nmsgs: int, faults: int, early_ticks: int = 1, topology: str = "pair"):
        # pair: X and Y send to each other; fanin: X and Z both send to Y (two senders whose message numbers
        # coincide meet in one listener)
        self.sides = "XY" if topology == "pair" else "XYZ"
        self.routes = {"X": "Y", "Y": "X"} if topology == "pair" else {"X": "Y", "Z": "Y"}
        for n in ("zmq", "get_context", "time", "max_retries_per_message"):
            common.seam(comms, n)
        self.net = Net(staged=True)
        self.clock = [10_000_000_000_000]
        comms.zmq = self.net
        comms.get_context = lambda: self.net.Context()
        comms.time = types.SimpleNamespace(time_ns=lambda: self.clock[0], time=lambda: self.clock[0] / 1e9)
        comms.max_retries_per_message = MAX_RETRIES
        self.nmsgs, self.faults_left, self.early_left = nmsgs, faults, early_ticks
        self.L = {s: comms.Listener(f"inproc://{s}") for s in self.sides}
        self.S = {s: comms.ReliableSender(f"inproc://{s}", GRACE_MS) for s in self.sides}
        for s_, peer in self.routes.items():
            self.S[s_].add_host(peer, f"inproc://{peer}")
        self.sent = {s: 0 for s in self.sides}
        self.handed: dict[str, list] = {s: [] for s in self.sides}  # application messages handed up at each side
        self.gave_up: dict[str, set] = {s: set() for s in self.sides}
        self.viol: list = []
        self.aged = False
        self.dup_used = False
        self.lost = 0          # frames dropped so far
        self.early_used = 0    # retry timers that fired while frames were still in flight
        self.blackhole = False
        self.last_tx: dict = {}  # (side, message number) -> clock value of its latest (re)transmission
        self._prev_tx: dict = {}

    def message(self, side: str, i: int):
        return msg.DatasetPurge(ds=DatasetId(side, str(i)))

    # ---- events
    def enabled(self) -> list:
        evs = []
        for s in self.routes:
            if self.sent[s] < self.nmsgs and not self.gave_up[s]:
                evs.append(("send", s))
        for k in range(len(self.net.deliverable())):
            evs.append(("deliver", k))
            if self.faults_left > 0:
                evs.append(("drop", k))
                evs.append(("dup", k))
        if self.net.flight and self.dup_used and not self.aged:
            evs.append(("age",))  # a duplicated frame is delayed for an hour before it arrives (once per history)
        for s in self.sides:
            # a retry timer firing while frames are still in flight is a deviation (budgeted); otherwise it is free
            if self.S[s].inflight and not self.gave_up[s] and (not self.net.flight or self.early_left > 0):
                evs.append(("tick", s))
        return evs

    def apply(self, ev) -> None:
        kind = ev[0]
        if kind == "send":
            s = ev[1]
            peer = self.routes[s]
            self.S[s].send(peer, self.message(s, self.sent[s]))
            self.last_tx[(s, self.S[s].idx - 1)] = self.clock[0]
            self.sent[s] += 1
            self._spin_check(s)
        elif kind in ("deliver", "drop", "dup"):
            i = self.net.deliverable()[ev[1]]
            if kind == "deliver":
                addr = self.net.flight[i][0]
                self.net.deliver(i)
                self.recv(addr[-1])  # arrival and handling by the receive loop are one step
            elif kind == "drop":
                self.net.drop(i)
                self.faults_left -= 1
                self.lost += 1
            else:
                self.net.duplicate(i)
                self.faults_left -= 1
                self.dup_used = True
        elif kind == "age":
            self.clock[0] += 3_600_000_000_000
            self.aged = True
        elif kind == "recv":
            self.recv(ev[1])
        elif kind == "tick":
            if self.net.flight:
                self.early_left -= 1
                self.early_used += 1
            self.tick(ev[1])

    def recv(self, s: str) -> None:
        """what both real receive loops do with the listener: acks to the sender, everything else to the application"""
        try:
            got = self.L[s].recv_messages(0)
        except Exception as e:
            self.viol.append(("listener_raised", f"{type(e).__name__} on a well-formed frame", repr(e)))
            return
        for m in got:
            if isinstance(m, msg.Ack):
                try:
                    self.S[s].ack(m.idx)
                except Exception as e:  # a repeated Ack (the answer to a retry or to a duplicated frame) is ordinary traffic
                    self.viol.append(("ack_raised", f"{type(e).__name__} while handling an Ack", f"{s}: Ack({m.idx}) with inflight {sorted(self.S[s].inflight)}: {e!r}"))
            else:
                if m in self.handed[s]:
                    self.viol.append(("handed_up_twice", "an application message was handed to the receiver twice", f"{m} at {s}"))
                self.handed[s].append(m)

    def _retry(self, s: str) -> list:
        """the real maybe_retry; returns the message numbers it re-sent (seen as a used-up retry) and records when"""
        left = {i: r.remaining for i, r in self.S[s].inflight.items()}
        self._prev_tx = dict(self.last_tx)
        try:
            self.S[s].maybe_retry()
        except ValueError as e:
            if "retried too many times" not in str(e):
                self.viol.append(("sender_raised", "unexpected error from maybe_retry", repr(e)))
            elif not self.blackhole and not self.aged and self.lost + self.early_used < MAX_RETRIES:
                # by the time it raises, MAX_RETRIES transmissions have gone unanswered: legitimate only if each of them
                # (or its Ack) was lost, or the timer fired before the answer could arrive (early timers; after the
                # one-hour `age` jump every frame still in flight counts as delayed beyond any grace)
                self.viol.append(("gave_up_on_reachable_peer", "sender raised 'retried too many times' although fewer frames were lost than transmissions went unanswered",
                                  f"{s}: {e}; frames lost {self.lost}, early timers {self.early_used}, handed up at peer: {self.handed[self.routes.get(s, 'X')]}"))
            self.gave_up[s].add(str(e))
        resent = [i for i, r in self.S[s].inflight.items() if r.remaining != left.get(i, r.remaining)]
        for i in resent:
            self.last_tx[(s, i)] = self.clock[0]
        return resent

    def tick(self, s: str) -> None:
        self.clock[0] += (GRACE_MS + 1) * 1_000_000
        self._retry(s)
        self._spin_check(s)

    def _spin_check(self, s: str) -> None:
        """the sender's loop comes round again 1 ms after a (re)transmission: whatever was sent less than the resend
        grace ago must not be sent again, nor may a retry be used up (a no-op on a correct sender)"""
        if self.gave_up[s] or not self.S[s].inflight:
            return
        self.clock[0] += 1_000_000
        early = [i for i in self._retry(s) if self.clock[0] - self._prev_tx.get((s, i), 0) <= GRACE_MS * 1_000_000]
        if early:
            self.viol.append(("retry_before_grace", "a message was re-sent (or a retry used up) before the resend grace had elapsed since its last transmission",
                              f"{s}: messages {early} re-sent {[(self.clock[0] - self._prev_tx[(s, i)]) // 1_000_000 for i in early]} ms after their last transmission"))

    def canon(self):
        def sender(S):
            return tuple(sorted((i, r.remaining) for i, r in S.inflight.items()))

        def frames(fr):
            return tuple(pickle.loads(f) if f[:1] == b"\x80" else f for f in fr)

        return (
            tuple(self.sent.items()), self.faults_left, self.early_left, self.aged, self.dup_used,
            tuple((s, sender(self.S[s]), tuple(sorted(map(repr, self.L[s].acked))), tuple(map(repr, self.handed[s])), bool(self.gave_up[s])) for s in self.sides),
            tuple((a, repr(frames(fr)), tag_rank) for (a, fr, _), tag_rank in zip(self.net.flight, self._tag_ranks())),
            tuple((a, tuple(repr(frames(fr)) for fr in q)) for a, q in sorted(self.net.queues.items()) if q),
        )

    def _tag_ranks(self):
        order = {}
        out = []
        for (_, _, tag) in self.net.flight:
            order.setdefault(tag, len(order))
            out.append(order[tag])
        return out

    # ---- fair closure: no more faults, everything in flight arrives, both loops and timers keep running
    def closure(self) -> list:
        n0 = len(self.viol)
        for _ in range(4 * (MAX_RETRIES + 3)):
            while self.net.flight:
                addr = self.net.flight[0][0]
                self.net.deliver(0)
                self.recv(addr[-1])
            if self.net.flight:
                continue
            if not any(self.S[s].inflight and not self.gave_up[s] for s in self.sides):
                break
            for s in self.sides:
                if self.S[s].inflight and not self.gave_up[s]:
                    self.tick(s)
        out = []
        for s in self.routes:
            peer = self.routes[s]
            for i in range(self.sent[s]):
                m = self.message(s, i)
                n = self.handed[peer].count(m)
                if n > 1:
                    out.append(("handed_up_twice", "an application message was handed to the receiver twice", f"{m}"))
                if n == 0 and not self.gave_up[s]:
                    out.append(("lost_silently", "a sent message was neither delivered nor reported as undeliverable", f"{m} from {s}; inflight {dict(self.S[s].inflight)}"))
        return list(self.viol[n0:]) + out


def blackhole_closure(p: Pair) -> list:
    """the peer became unreachable: every frame is lost from now on; each sender with an unconfirmed message must
    raise after a bounded number of retries"""
    out = []
    p.blackhole = True
    for s in p.sides:
        if not p.S[s].inflight or p.gave_up[s]:
            continue
        for _ in range(MAX_RETRIES + 2):
            del p.net.flight[:]
            if p.gave_up[s]:
                break
            p.tick(s)
        if not p.gave_up[s]:
            out.append(("retries_unbounded", "sender keeps retrying an unconfirmed message without ever raising", f"{s}: {dict(p.S[s].inflight)}"))
    return out


def build(cfg, hist) -> Pair:
    p = Pair(cfg["nmsgs"], cfg["faults"], cfg.get("early_ticks", 1), cfg.get("topology", "pair"))
    for ev in hist:
        p.apply(tuple(ev))
    return p


def core(ctx, nmsgs: int, faults: int, early: int, max_depth: int, budget_s: float, topology: str = "pair"):
    import time

    cfg = {"nmsgs": nmsgs, "faults": faults, "early_ticks": early}
    if topology != "pair":
        cfg["topology"] = topology

    def expand(hist):
        p = build(cfg, hist)
        out = []
        en = p.enabled()
        cl = blackhole_closure(build(cfg, hist))
        # the fair closure is one of the fault-free continuations the BFS explores anyway: only needed where it stops
        if not en or len(hist) >= max_depth - 1:
            cl = cl + build(cfg, hist).closure()
        if cl:
            out.append((None, None, cl))
        for ev in en:
            q = build(cfg, hist + [ev])
            out.append((ev, None if q.viol else q.canon(), list(q.viol)))
        return out

    r = bfs.bfs(expand, build(cfg, []).canon(), max_depth, deadline=time.time() + budget_s)
    return cfg, r


# ---------------------------------------------------------------- (c) framing
def framing(acc: dict):
    net = Net()
    comms.zmq = net
    comms.get_context = lambda: net.Context()
    hdr = msg.DatasetTransmitPayloadHeader(confirm_address="inproc://S", confirm_idx=3, ds=DatasetId("t", "0"), deser_fun="d")
    m = msg.DatasetPurge(ds=DatasetId("t", "0"))
    A = {"S1": ser_message(msg.Syn(1, "inproc://S")), "S2": ser_message(msg.Syn(2, "inproc://S")), "H": pickle.dumps(hdr), "M": ser_message(m), "R": b"raw-bytes"}
    viol = []
    n = 0
    for L in range(0, 5):
        for seq in itertools.product(A, repeat=L):
            n += 1
            lst = comms.Listener(f"inproc://F{n}")
            net.queues[f"inproc://F{n}"].append([A[x] for x in seq])
            core_seq = seq[1:] if seq and seq[0] in ("S1", "S2") else seq
            if core_seq == ("M",):
                want = ("msg", m)
            elif len(core_seq) == 2 and core_seq[0] == "H":
                want = ("msg", msg.DatasetTransmitPayload(header=hdr, value=A[core_seq[1]]))
            else:
                want = ("error", None)
            try:
                got = lst._recv_one(0)
                res = ("msg", got)
            except Exception:
                res = ("error", None)
            rp = {"part": "framing", "seq": list(seq)}
            if want[0] == "error" and res[0] != "error":
                viol.append(("malformed_accepted", "a malformed frame sequence was delivered as a message", f"{seq} -> {res[1]!r}", rp))
            elif want[0] == "msg" and (res[0] != "msg" or res[1] != want[1]):
                viol.append(("wellformed_rejected_or_altered", "a well-formed frame sequence was rejected or decoded differently", f"{seq} -> {res}", rp))
    # (d) two datagrams into one listener: a retry / duplicate (same Syn) is acknowledged again and dropped, for the
    # two-frame and for the three-frame (payload) shape alike; the same content under a new Syn is a new message
    shapes = {"message": ("M",), "payload": ("H", "R")}
    for sname, body in shapes.items():
        for second in ("same-syn", "new-syn", "same-syn-thrice"):
            n += 1
            addr = f"inproc://G{n}"
            lst = comms.Listener(addr)
            seqs = [("S1",) + body, (("S1",) if second != "new-syn" else ("S2",)) + body] + ([("S1",) + body] if second == "same-syn-thrice" else [])
            for sq in seqs:
                net.queues[addr].append([A[x] for x in sq])
            acks_before = len(net.queues.get("inproc://S", ()))
            rp = {"part": "framing", "seq": [list(x) for x in seqs], "pairs": True}
            try:
                got = [lst._recv_one(0) for _ in seqs]
            except Exception as e:
                viol.append(("listener_raised", f"{type(e).__name__} on a well-formed frame", f"{seqs}: {e!r}", rp))
                continue
            handed = [g for g in got if g is not None]
            want_n = 2 if second == "new-syn" else 1
            if len(handed) != want_n:
                cause = "an application message was handed to the receiver twice" if len(handed) > want_n else "a new message was dropped as a duplicate"
                viol.append(("handed_up_twice" if len(handed) > want_n else "new_message_dropped", cause + f" ({sname} framing)", f"{seqs} -> {got!r}"[:300], rp))
            acks = len(net.queues.get("inproc://S", ())) - acks_before
            if acks != len(seqs):
                viol.append(("retry_not_acknowledged", f"a datagram carrying a Syn was not acknowledged ({sname} framing)", f"{seqs}: {acks} acks for {len(seqs)} datagrams", rp))
    acc["framing_sequences"] = n
    return viol


def run(ctx):
    viols = []
    tot_states = tot_trans = 0
    bounds = []
    for (nmsgs, faults, early, depth, *topo) in ctx.pick([(1, 2, 1, 40), (2, 1, 0, 40), (1, 1, 0, 40, "fanin")],
                                                         [(1, 3, 2, 60), (2, 2, 1, 60), (2, 3, 0, 60), (3, 1, 0, 60), (2, 1, 0, 60, "fanin"), (1, 2, 1, 60, "fanin")]):
        # thorough: each configuration is explored to closure or for 10 minutes, whichever comes first (reported as capped)
        cfg, r = core(ctx, nmsgs, faults, early, depth, ctx.pick(900, 600), topo[0] if topo else "pair")
        tot_states += r["states"]
        tot_trans += r["transitions"]
        bounds.append({"topology": topo[0] if topo else "pair", "messages_per_direction": nmsgs, "fault_budget": faults, "early_timer_budget": early, "depth_completed": r["depth"], "closed": r["closed"], "states": r["states"], "capped": r["capped"]})
        for (mon, cause), (m, hist) in r["violations"].items():
            ctx.add_violation(common.Violation({"monitor": mon, "cause": cause}, f"[{cfg}] {m}; history={hist}", {"part": "core", "cfg": cfg, "history": hist}))
        for h in r["samples"][:1]:
            ctx.sample({"part": "core", "cfg": cfg, "history": h})
    acc = {}
    for (mon, cause, m, rp) in framing(acc):
        ctx.add_violation(common.Violation({"monitor": mon, "cause": cause}, m, rp))
    from vf import c06_loops

    loops = c06_loops.run(ctx)
    ctx.coverage.update(states=tot_states + loops["states"], transitions=tot_trans + loops["transitions"], traces_validated_against_impl=tot_trans + loops["transitions"],
                        bounds=bounds, framing_sequences=acc["framing_sequences"], loops=loops["summary"],
                        exhaustive=all(not b["capped"] for b in bounds), max_retries_per_message=MAX_RETRIES)
    ctx.sample({"part": "framing", "seq": ["S1", "H", "R"], "expect": "DatasetTransmitPayload(header, b'raw-bytes') + Ack"})
    ctx.assume("max_retries_per_message lowered from 20 to 3 by the harness so that the give-up path is inside the explored space",
               "frames of one socket arrive in order, frames of different sockets in any order; zmq reconnection/HWM behaviour is not modelled",
               "fair closure: after the fault budget is spent every frame arrives and both endpoints keep receiving and ticking")


def replay(ctx, data):
    if data["part"] == "core":
        p = build(data["cfg"], data["history"])
        v = list(p.viol) or (build(data["cfg"], data["history"]).closure() + blackhole_closure(build(data["cfg"], data["history"])))
        return [common.Violation({"monitor": m, "cause": c}, msg_, data) for (m, c, msg_) in v]
    if data["part"] == "framing":
        return [common.Violation({"monitor": m, "cause": c}, msg_, rp) for (m, c, msg_, rp) in framing({})]
    from vf import c06_loops

    return c06_loops.replay(ctx, data)
