"""C08 - the shared-memory store never hands out more memory than its capacity.
Explicit-state BFS over the real client API -> codec -> LocalServer -> Manager -> Disk bodies (ShmWorld), with
capacity/accounting invariants after every event, plus a conformance pass on real shared memory and real threads."""
from vf import common, shm_family as fam

PROP = "C08"


def run(ctx):
    items = fam.explore(ctx, PROP, with_liveness=False)
    n = fam.conformance(ctx, items, ctx.pick(30, 200))
    ctx.coverage["histories_replayed_on_real_shm"] = n
    ctx.assume("a disk job's body and callback run atomically at the explorer-chosen completion step (thread interleavings inside Manager methods are not modelled here)",
               "timestamps are rank-compressed in the state key; the 15-minute staleness windows are unreachable",
               "purge of a dataset that is being written / paged out / paged in is not defined by the statement: the reference follows the store there")


def replay(ctx, data):
    return fam.replay(ctx, data, PROP)
