"""C14 - fluent node names identify computations; operations leave operands intact.
Bounded-exhaustive: (A) every ordered pair of payload variants (distinct lambdas, distinct defs sharing __name__, equal
function with different static args/kwargs/partials, large-array statics) applied by map and by reduce to shared
sources; in the union a name must map to one denotation, names must be reproducible (same process, and a subprocess
with another hash seed), and lowering must give one task per distinct computation. (B) every operation of the C13
alphabet (plus size-1 stack/concatenate and binary operations between actions with different coordinate values) with
before/after snapshots of every pre-existing action."""
from __future__ import annotations

import functools
import json
import os
import subprocess
import sys

import numpy as np

from earthkit.workflows import Cascade, fluent
from earthkit.workflows.graph import Graph

from vf import common
from vf import fluent_ref as fr

PROP = "C14"


# ---------------------------------------------------------------- payload variants
def g(x, c=0, k=0, w=None):
    return x + c + k


def h(*xs, c=0):
    return sum(xs) + c


def make_named(n):
    def f(x):
        return x + n

    return f


lam1 = lambda x: x + 1  # noqa: E731
lam2 = lambda x: x * 2  # noqa: E731
f_a, f_b = make_named(1), make_named(2)
BIG1 = np.arange(3000)
BIG2 = np.arange(3000)
BIG2[1500] = -1


def variants():
    P = fluent.Payload
    return {
        "lam1": lambda: lam1,
        "lam2": lambda: lam2,
        "def-f-a": lambda: f_a,
        "def-f-b": lambda: f_b,
        "g": lambda: g,
        "g-arg1": lambda: P(g, ["input0", 1]),
        "g-arg2": lambda: P(g, ["input0", 2]),
        # statics that print alike but are different values
        "g-argstr1": lambda: P(g, ["input0", "1"]),
        "g-argNone": lambda: P(g, ["input0", 0, 0, None]),
        "g-argstrNone": lambda: P(g, ["input0", 0, 0, "None"]),
        "g-kw1": lambda: P(g, kwargs={"k": 1}),
        "g-kw2": lambda: P(g, kwargs={"k": 2}),
        "g-partial1": lambda: functools.partial(g, c=1),
        "g-partial2": lambda: functools.partial(g, c=2),
        "g-big1": lambda: P(g, kwargs={"w": BIG1}),
        "g-big2": lambda: P(g, kwargs={"w": BIG2}),
    }


def freeze_static(x):
    if isinstance(x, np.ndarray):
        return ("nd", x.shape, x.tobytes())
    if isinstance(x, dict):
        return tuple(sorted((k, freeze_static(v)) for k, v in x.items()))
    if isinstance(x, (list, tuple)):
        return tuple(freeze_static(e) for e in x)
    return x


def denotation(n, memo):
    if id(n) in memo:
        return memo[id(n)]
    func, args, kwargs = n.payload
    ins = tuple(sorted((i, denotation(s.parent, memo), s.name) for i, s in n.inputs.items()))
    d = (id(func), freeze_static(args), freeze_static(kwargs), ins, tuple(n.outputs))
    memo[id(n)] = d
    return d


def classify(d1, d2, n1, n2):
    f1, a1, k1, i1, _ = d1
    f2, a2, k2, i2, _ = d2
    if f1 != f2 and (a1, k1, i1) == (a2, k2, i2):
        return "distinct callables with equal __name__, equal statics, equal inputs"
    if f1 == f2 and i1 == i2 and (a1, k1) != (a2, k2):
        big = any(isinstance(x, tuple) and x and x[0] == "nd" for x in _walk((a1, k1)))
        return "equal callable, static arguments that differ only inside an abbreviated repr (large arrays)" if big else "equal callable, different static arguments"
    if i1 != i2:
        return "different inputs"
    return "other"


def _walk(x):
    if isinstance(x, tuple):
        yield x
        for e in x:
            yield from _walk(e)


def names_part(ctx, out):
    vs = list(variants())
    n = 0
    nontrivial = 0
    for kind in ("map",):
        for v1 in vs:
            for v2 in vs:
                n += 1
                rp = {"part": "names", "kind": kind, "v1": v1, "v2": v2}
                try:
                    src = fr.source_impl(0, (2, 2), (2,))
                    a1 = src.map(variants()[v1]())
                    a2 = src.map(variants()[v2]())
                    # a second level over both, so that input denotations matter
                    b1 = a1.map(g)
                    b2 = a2.map(g)
                    union = a1.graph() + a2.graph() + b1.graph() + b2.graph()
                    nodes = list(union.nodes())
                except Exception as e:
                    out.append(({"monitor": "fluent_raised", "cause": f"{type(e).__name__} building {kind}"}, f"{rp}: {e!r}", rp))
                    continue
                memo = {}
                byname = {}
                innames: dict = {}
                for node in nodes:
                    byname.setdefault(node.name, set()).add(denotation(node, memo))
                    innames.setdefault(node.name, set()).add(tuple(sorted((i, s.parent.name, s.name) for i, s in node.inputs.items())))
                innames = {k: len(v) for k, v in innames.items()}
                collided = False
                for name, ds in byname.items():
                    if len(ds) > 1:
                        dl = list(ds)
                        cause = classify(dl[0], dl[1], None, None)
                        if cause == "different inputs" and innames[name] == 1:
                            continue  # same input *names*: merely downstream of a collision reported above
                        out.append(({"monitor": "name_collision", "cause": cause}, f"{v1} vs {v2}: name {name[:40]} carries {len(ds)} different computations", rp))
                        collided = True
                distinct = len({denotation(nd, memo) for nd in nodes})
                if v1 != v2:
                    nontrivial += 1
                # union through Cascade.from_actions and lowering by name
                try:
                    from cascade.low.into import graph2job

                    c = Cascade.from_actions([a1, a2, b1, b2])
                    job = graph2job(c._graph)
                    if len(job.tasks) != distinct and not collided:
                        out.append(({"monitor": "lowering_task_count", "cause": "number of tasks differs from the number of distinct computations"}, f"{v1} vs {v2}: {len(job.tasks)} tasks, {distinct} computations", rp))
                except AssertionError as e:
                    if not collided:
                        out.append(({"monitor": "lowering_raised", "cause": "AssertionError (duplicate names) without a name collision between different computations"}, f"{v1} vs {v2}: {e!r}", rp))
                except Exception as e:
                    big = "big" in v1 or "big" in v2
                    cause = f"{type(e).__name__} in union/lowering" + (" with array-valued static arguments" if big else "")
                    if not collided:
                        out.append(({"monitor": "lowering_raised", "cause": cause}, f"{v1} vs {v2}: {e!r}"[:300], rp))
    return n, nontrivial


def order_part(ctx, out):
    """a.op(b) and b.op(a) over shared sources are different computations and must not share a name"""
    n = 0
    for opname in ("subtract", "divide", "power", "add"):
        for derive in ("map", "sum"):
            n += 1
            rp = {"part": "order", "op": opname, "derive": derive}
            src = fr.source_impl(0, (2, 2), (2,))
            a = src.map(g)
            b = src.map(variants()["g-arg1"]()) if derive == "map" else src.sum("x").broadcast(src)
            try:
                ab, ba = getattr(a, opname)(b), getattr(b, opname)(a)
                nodes = list((ab.graph() + ba.graph()).nodes())
            except Exception as e:
                out.append(({"monitor": "fluent_raised", "cause": f"{type(e).__name__} building {opname}"}, f"{rp}: {e!r}", rp))
                continue
            memo: dict = {}
            byname: dict = {}
            for node in nodes:
                byname.setdefault(node.name, set()).add(denotation(node, memo))
            for name, ds in byname.items():
                if len(ds) > 1:
                    out.append(({"monitor": "name_collision", "cause": "same callable and statics, same parents bound to different parameters (a.op(b) vs b.op(a))"},
                                f"{opname}/{derive}: name {name[:40]} carries {len(ds)} computations", rp))
                    break
    return n, n


def reproducibility_part(ctx, out):
    """same program twice in this process, and once in a subprocess with another hash seed"""

    def names():
        res = {}
        for v in ("g", "g-arg1", "g-kw1", "g-partial1", "def-f-a"):
            src = fr.source_impl(0, (2, 3), (2,))
            a = src.map(variants()[v]()).sum("y", batch_size=2).subtract(1.5)
            res[v] = sorted(n.name for n in a.graph().nodes())
        return res

    n1, n2 = names(), names()
    if n1 != n2:
        out.append(({"monitor": "names_not_reproducible", "cause": "building the same program twice in one process gives different names"}, "", {"part": "repro"}))
    code = "import sys, json; sys.path.insert(0, %r); sys.path.insert(0, %r); import logging; logging.disable(50); from vf.checks import c14; out=[]; import vf.common as c; c.bind_repo(); print('NAMES' + json.dumps(c14.reproducibility_names()))" % (common.REPO_SRC, common.VERIF)
    env = dict(os.environ, PYTHONHASHSEED="4242")
    r = subprocess.run([sys.executable, "-W", "ignore", "-c", code], capture_output=True, text=True, env=env, timeout=300)
    line = [l for l in r.stdout.splitlines() if l.startswith("NAMES")]
    if not line:
        raise common.HarnessError(f"subprocess for name reproducibility failed: {r.stderr[-500:]}")
    n3 = json.loads(line[0][5:])
    if n3 != n1:
        out.append(({"monitor": "names_not_reproducible", "cause": "a process with another hash seed gives different names"}, "", {"part": "repro"}))
    return 3, 2


def reproducibility_names():
    res = {}
    for v in ("g", "g-arg1", "g-kw1", "g-partial1", "def-f-a"):
        src = fr.source_impl(0, (2, 3), (2,))
        a = src.map(variants()[v]()).sum("y", batch_size=2).subtract(1.5)
        res[v] = sorted(n.name for n in a.graph().nodes())
    return res


# ---------------------------------------------------------------- operands intact
def snapshot(a):
    nodes = a.nodes
    return (
        tuple(map(str, nodes.dims)), tuple(nodes.shape),
        tuple((str(k), tuple(np.asarray(v.values).reshape(-1).tolist())) for k, v in sorted(nodes.coords.items(), key=lambda kv: str(kv[0]))),
        tuple(id(x) for x in nodes.data.reshape(-1)) if nodes.shape != () else (id(nodes.data.item()),),
        graph_key(a),
        id(nodes),
    )


def graph_key(a):
    """every node under the action: name -> (callable, static arguments by value, inputs, outputs)"""
    res = []
    for n in a.graph().nodes():
        try:
            func, args, kwargs = n.payload
            pk = (getattr(func, "__name__", None) or repr(func), freeze_static(list(args)), freeze_static(dict(kwargs)))
        except Exception:
            pk = repr(n.payload)
        res.append((n.name, repr(pk), tuple(sorted((k, s.parent.name, s.name) for k, s in n.inputs.items())), tuple(n.outputs)))
    return tuple(sorted(res))


def operand_ops():
    """(label, shape, function(receiver, other) -> result)"""
    ops = []
    for name in fr.NPRED:
        for bs in (0, 2):
            for keep in (False, True):
                ops.append((f"{name}(x,bs={bs},keep={keep})", (3, 2), lambda a, o, name=name, bs=bs, keep=keep: getattr(a, name)(dim="x", batch_size=bs, keep_dim=keep)))
    for ax in (1, -1):
        ops.append((f"stack(x,axis={ax})", (3, 2), lambda a, o, ax=ax: a.stack("x", axis=ax)))
    for name in list(fr.NPRED)[:2]:
        ops.append((f"{name}(x,backend_kwargs)", (3, 2), lambda a, o, name=name: getattr(a, name)(dim="x", backend_kwargs={"keepdims": True})))
    for keep in (False, True):
        ops.append((f"stack(x,keep={keep})", (3, 2), lambda a, o, keep=keep: a.stack("x", keep_dim=keep)))
        ops.append((f"stack(size-1 dim,keep={keep})", (1, 2), lambda a, o, keep=keep: a.stack("x", keep_dim=keep)))
        ops.append((f"concatenate(size-1 dim,keep={keep})", (1, 2), lambda a, o, keep=keep: a.concatenate("x", keep_dim=keep, backend_kwargs={"axis": 0})))
        ops.append((f"concatenate(x,keep={keep})", (3, 2), lambda a, o, keep=keep: a.concatenate("x", keep_dim=keep, backend_kwargs={"axis": 0})))
    ops.append(("flatten(x)", (3, 2), lambda a, o: a.flatten("x")))
    ops.append(("map", (3, 2), lambda a, o: a.map(g)))
    ops.append(("expand", (3, 2), lambda a, o: a.expand("e", 0, dim_size=2)))
    ops.append(("expand(size 1)", (3, 2), lambda a, o: a.expand("e", 0, dim_size=1)))
    ops.append(("transform", (3, 2), lambda a, o: a.transform(fr.scale_action, [(2,), (3,)], "t")))
    ops.append(("transform(one param)", (3, 2), lambda a, o: a.transform(fr.scale_action, [(2,)], "t")))
    ops.append(("transform(function returns its action for one param)", (3, 2), lambda a, o: a.transform(fr.ident_or_scale, [(1,), (2,)], "t")))
    ops.append(("isel", (3, 2), lambda a, o: a.isel({"x": 0})))
    ops.append(("sel(list)", (3, 2), lambda a, o: a.sel({"x": [10, 11]})))
    ops.append(("select(empty)", (3, 2), lambda a, o: a.select({})))
    ops.append(("broadcast", (3, 2), lambda a, o: a.broadcast(o)))
    ops.append(("join(existing dim)", (3, 2), lambda a, o: a.join(o, "x")))
    ops.append(("join(new dim)", (3, 2), lambda a, o: a.join(o, "j")))
    for name in fr.NPBIN:
        ops.append((f"{name}(scalar)", (3, 2), lambda a, o, name=name: getattr(a, name)(2)))
        ops.append((f"{name}(action)", (3, 2), lambda a, o, name=name: getattr(a, name)(o)))
    return ops


_MUTATORS: set = set()  # labels of operations seen altering their receiver while serving as battery members


def operands_part(ctx, out):
    n = 0
    for label, shape, fn in operand_ops():
        for other_kind in ("same", "diffcoords"):
            if other_kind == "diffcoords" and not (label.endswith("(action)")):
                continue
            n += 1
            rp = {"part": "operands", "op": label, "other": other_kind}
            a = fr.source_impl(0, shape, (2,))
            r0 = fr.source_ref(0, shape, (2,))
            if label == "broadcast":
                dims, labels, oshape = fr.other_spec("extra-dim", r0, None)
            elif label == "join(existing dim)":
                dims, labels, oshape = fr.other_spec("newlabels-first", r0, None)
            else:
                dims, labels, oshape = fr.other_spec(other_kind, r0, None)
            o = fr.source_impl(1, oshape, (2,), dims, labels)
            # actions derived earlier from the receiver must not change either: one application of every other operation.
            # An operation that alters its own receiver would spoil the receiver for the operation under test, so each
            # battery member is applied under a guard and left out (it is reported when it is itself under test)
            earlier = []
            for _l2, shape2, fn2 in operand_ops():
                if _l2 != label and shape2 == shape and not _l2.endswith("(action)") and _l2 not in ("broadcast", "join(existing dim)") and _l2 not in _MUTATORS:
                    guard = snapshot(a)[:5]
                    try:
                        derived = fn2(a, o)
                    except Exception:
                        continue
                    if snapshot(a)[:5] != guard:
                        _MUTATORS.add(_l2)
                        a = fr.source_impl(0, shape, (2,))  # start over with a fresh receiver and without that member
                        earlier = []
                        continue
                    earlier.append(derived)
            before = [snapshot(x) for x in (a, o, *earlier)]
            try:
                res = fn(a, o)
            except Exception as e:
                out.append(({"monitor": "fluent_raised", "cause": f"{label.split('(')[0]}: {type(e).__name__}"}, f"{rp}: {e!r}"[:300], rp))
                continue
            after = [snapshot(x) for x in (a, o, *earlier)]
            for who, b, af in zip(["receiver", "operand"] + ["earlier action"] * len(earlier), before, after):
                if b[:5] != af[:5]:
                    what = "dimensions" if b[0] != af[0] or b[1] != af[1] else ("coordinates" if b[2] != af[2] else ("nodes" if b[3] != af[3] else "payloads/names of existing nodes"))
                    out.append(({"monitor": "operand_mutated", "cause": f"{'binary operation between actions' if label.endswith('(action)') else label.split('(')[0]}{'(size-1 dim)' if 'size-1' in label else ''}: {what} of the {who} changed"},
                                f"{rp}: {b[:3]} -> {af[:3]}"[:500], rp))
    return n, n


def _pair_chunk(arg):
    """name/denotation uniqueness across the union of two fluent programs built over ONE shared source"""
    from vf.checks import c13

    pairs, ops = arg
    res = []
    for (i, j) in pairs:
        try:
            src = fr.source_impl(0, (2, 3), (2,))
            r0 = fr.source_ref(0, (2, 3), (2,))
            a = fr.apply_impl(src, ops[i], r0)
            b = fr.apply_impl(src, ops[j], r0)
            nodes = list((a.graph() + b.graph()).nodes())
        except Exception as e:
            continue  # operation errors are C13's subject
        memo: dict = {}
        byname: dict = {}
        innames: dict = {}
        for node in nodes:
            byname.setdefault(node.name, set()).add(denotation(node, memo))
            innames.setdefault(node.name, set()).add(tuple(sorted((k, s.parent.name, s.name) for k, s in node.inputs.items())))
        for name, ds in byname.items():
            if len(ds) > 1:
                dl = list(ds)
                cause = classify(dl[0], dl[1], None, None)
                if cause == "different inputs" and len(innames[name]) == 1:
                    continue
                res.append(({"monitor": "name_collision", "cause": cause}, f"programs {ops[i]} and {ops[j]} over a shared source: name {name[:40]} carries {len(ds)} computations",
                            {"part": "pairs", "ops": [ops[i], ops[j]]}))
    return res


def pairs_part(ctx, out):
    from vf.checks import c13

    r0 = fr.source_ref(0, (2, 3), (2,))
    ops = [op for op in c13.ops_for(r0, True, 0) if op[0] not in ("broadcast",)]
    pairs = [(i, j) for i in range(len(ops)) for j in range(i, len(ops))]
    chunks = [(pairs[k::64], ops) for k in range(64)]
    for res in common.pmap(_pair_chunk, chunks):
        out.extend(res)
    return len(pairs), len(pairs) - len(ops)


def cascade_part(ctx, out):
    """unions at the Cascade level: +, += and from_actions must leave every other Cascade (an empty one made before, an
    empty one made afterwards, the operands) as it was"""
    from earthkit.workflows import Cascade

    n = 0
    for op in ("iadd", "add", "from_actions"):
        n += 1
        rp = {"part": "cascade", "op": op}
        a = fr.source_impl(0, (3, 2), (2,))
        b = a.map(g)
        # each case starts from a clean slate: a default graph object shared through the signature is emptied first, so
        # that a case is charged only with what it does itself
        dflt = getattr(Cascade.__init__, "__defaults__", None)
        if dflt and hasattr(dflt[0], "sinks"):
            dflt[0].sinks = []
        try:
            bystander = Cascade()
            left = Cascade() if op != "from_actions" else None
            right = Cascade.from_actions([b])
            names_right = sorted(x.name for x in right._graph.nodes())
            if op == "iadd":
                left += right
            elif op == "add":
                _ = left + right
            else:
                _ = Cascade.from_actions([a, b])
            fresh = Cascade()
        except Exception as e:
            out.append(({"monitor": "fluent_raised", "cause": f"Cascade {op}: {type(e).__name__}"}, f"{rp}: {e!r}"[:300], rp))
            continue
        for who, c in (("an empty Cascade made before the union", bystander), ("a Cascade made after the union", fresh)):
            got = sorted(x.name for x in c._graph.nodes())
            if got:
                out.append(({"monitor": "operand_mutated", "cause": f"Cascade union ({op}): {who} is not empty any more"}, f"{rp}: {len(got)} nodes, e.g. {got[0][:40]}", rp))
        if sorted(x.name for x in right._graph.nodes()) != names_right:
            out.append(({"monitor": "operand_mutated", "cause": f"Cascade union ({op}): the right operand changed"}, f"{rp}", rp))
    return n, n


def arguments_part(ctx, out):
    """plain arguments handed to an operation (selection criteria, backend_kwargs) are the caller's objects: they must
    come back unchanged"""
    import copy

    n = 0
    cases = [
        ("select(criteria dict + keyword)", lambda a, d: a.select(d, y="a"), {"x": 10}),
        ("iselect(criteria dict + keyword)", lambda a, d: a.iselect(d, y=0), {"x": 1}),
        ("sum(backend_kwargs)", lambda a, d: a.sum("x", backend_kwargs=d), {"keepdims": True}),
        ("mean(batched, backend_kwargs)", lambda a, d: a.mean("x", batch_size=2, backend_kwargs=d), {"keepdims": True}),
        ("std(batched, backend_kwargs)", lambda a, d: a.std("x", batch_size=2, backend_kwargs=d), {"keepdims": True}),
        ("stack(backend_kwargs)", lambda a, d: a.stack("x", axis=1, backend_kwargs=d), {}),
        ("concatenate(backend_kwargs)", lambda a, d: a.concatenate("x", backend_kwargs=d), {"axis": 0}),
    ]
    for label, fn, arg in cases:
        n += 1
        rp = {"part": "arguments", "op": label}
        a = fr.source_impl(0, (3, 2), (2,))
        mine = copy.deepcopy(arg)
        try:
            fn(a, mine)
        except Exception as e:
            out.append(({"monitor": "fluent_raised", "cause": f"{label.split('(')[0]}: {type(e).__name__}"}, f"{rp}: {e!r}"[:300], rp))
            continue
        if mine != arg:
            out.append(({"monitor": "operand_mutated", "cause": f"{label.split('(')[0]}: the dict the caller passed in was changed"}, f"{rp}: {arg} -> {mine}", rp))
    return n, n


def run(ctx):
    out: list = []
    nc, ntc = cascade_part(ctx, out)
    na, nta = arguments_part(ctx, out)
    nc, ntc = nc + na, ntc + nta
    n1, nt1 = names_part(ctx, out)
    n1, nt1 = n1 + nc, nt1 + ntc
    if not ctx.quick:
        n4, nt4 = pairs_part(ctx, out)
        n1, nt1 = n1 + n4, nt1 + nt4
    n2, nt2 = reproducibility_part(ctx, out)
    n5, nt5 = order_part(ctx, out)
    n2, nt2 = n2 + n5, nt2 + nt5
    n3, nt3 = operands_part(ctx, out)
    for sig, msg, rp in out:
        ctx.add_violation(common.Violation(sig, msg, rp))
    ctx.coverage.update(
        evaluations=n1 + n2 + n3, distinct_nontrivial=nt1 + nt2 + nt3, exhaustive=True,
        rule="(A) every ordered pair of 13 payload variants (two lambdas, two defs sharing __name__, g with positional/keyword/partial statics 1|2, large-array statics differing in one hidden element) mapped over a shared (2,2) source, plus a second map level; union via Graph +, Cascade.from_actions, graph2job. (B) every operation of the fluent alphabet incl. size-1 stack/concatenate and binary operations between actions with equal and different coordinate values, with snapshots (dims, shape, coords, node identities) of receiver, operand and an earlier derived action. Non-trivial = pair of different variants / each operation",
    )
    ctx.sample({"names": {"v1": "lam1", "v2": "lam2", "expect": "different names or same computation"}})
    ctx.sample({"operands": {"op": "subtract(action)", "other": "diffcoords", "expect": "operand's coordinates unchanged"}})
    ctx.assume("callable identity is object identity (id(func)); static arguments are compared by value (arrays by bytes)")


def replay(ctx, data):
    out: list = []
    if data["part"] == "order":
        order_part(ctx, out)
        return [common.Violation(sig, msg, rp) for sig, msg, rp in out]
    if data["part"] == "pairs":
        return [common.Violation(sig, msg, rp) for sig, msg, rp in _pair_chunk(([(0, 1)], data["ops"]))]
    if data["part"] == "names":
        names_part(ctx, out)
    elif data["part"] == "repro":
        reproducibility_part(ctx, out)
    elif data["part"] == "cascade":
        cascade_part(ctx, out)
    elif data["part"] == "arguments":
        arguments_part(ctx, out)
    else:
        operands_part(ctx, out)
    return [common.Violation(sig, msg, rp) for sig, msg, rp in out]
