"""C05 - a failing task or dying worker-side process fails the run, never hangs it; nothing left behind.
Fault enumeration on vcluster (the whole runtime in one process, real code everywhere): for every task and every point
of its body (before the first output, after k of N outputs, after the last) it raises / calls sys.exit(3) / has its
process killed; for every helper process (each worker, the data server, the shm server) on every host and every
scheduler step of the fault-free schedule, it is killed at that step. Virtual time makes 'hang' deterministic."""
from __future__ import annotations

import functools
import sys

from cascade.low.core import DatasetId, JobInstance, Task2TaskEdge, TaskDefinition, TaskInstance

from vf import common, vcluster
from vf.jobs import sequential_eval

PROP = "C05"
HORIZON_S = 1000.0  # > 900 virtual seconds after any fault (fault-free runs take ~0.1 virtual seconds)

PLAN: dict = {}
FIRED: list = []
CLUSTER: list = [None]
REAL: list = [False]  # set by vf.realcluster: faults act on real OS processes


def _maybe_fault(name: str, point: int):
    p = PLAN
    if p.get("task") == name and p.get("point") == point and not FIRED:
        FIRED.append((name, point, p["kind"]))
        if CLUSTER[0] is not None and not REAL[0]:
            FIRED_AT.append(CLUSTER[0].sched.now_ns)
        if p["kind"] == "raise":
            raise RuntimeError(f"injected failure in {name} at {point}")
        if p["kind"] == "exit":
            sys.exit(3)
        if p["kind"] == "exit0":
            sys.exit()  # the plain call: exit status 0
        if p["kind"] == "kill" and REAL[0]:
            import os
            import signal

            os.kill(os.getpid(), signal.SIGKILL)
        if p["kind"] == "kill":
            S = CLUSTER[0].sched
            S.current.killed = True
            raise vcluster.VKilled()


def f_single(name: str, *args, **kwargs):
    _maybe_fault(name, 0)
    return (name, tuple(args), tuple(sorted(kwargs.items())))


LATENCY_BOUND_S = 120.0  # a failure must end the run within this many virtual seconds, whatever else is running
SLOW_S = 300.0  # duration of the long task of the *slow jobs, in (virtual) seconds
TERM_SNAP: list = []  # segments existing when a SIGTERM was delivered
FIRED_AT: list = []  # virtual instant at which the injected fault fired


def _vsleep(seconds: float) -> None:
    if REAL[0]:
        import time

        time.sleep(min(seconds, 20.0))
        return
    S = CLUSTER[0].sched if CLUSTER[0] is not None else None
    if S is None or S.current is None:
        return  # reference evaluation outside any virtual process: no time passes
    S.block(lambda: False, S.now_ns + int(seconds * 1e9))


def f_slow(name: str, *args, **kwargs):
    """a long task that has nothing to do with the injected fault"""
    _vsleep(SLOW_S)
    return (name, tuple(args), tuple(sorted(kwargs.items())))


def f_gen(name: str, n: int, *args, **kwargs):
    for i in range(n):
        _maybe_fault(name, i)
        yield (name, i, tuple(args), tuple(sorted(kwargs.items())))
    _maybe_fault(name, n)


def make_job(kind: str) -> JobInstance:
    slow = kind.endswith("slow")
    kind = kind[:-4] if slow else kind

    def task(name, outs, nargs):
        f = functools.partial(f_single, name) if len(outs) == 1 else functools.partial(f_gen, name, len(outs))
        if slow and name == "t3":
            f = functools.partial(f_slow, name)
        return TaskInstance(definition=TaskDefinition(func=TaskDefinition.func_enc(f), entrypoint="", environment=[], input_schema={}, output_schema={o: "Any" for o in outs}),
                            static_input_kw={}, static_input_ps={str(nargs): f"s-{name}"})

    def edge(s, so, d, pos):
        return Task2TaskEdge(source=DatasetId(s, so), sink_task=d, sink_input_kw=None, sink_input_ps=pos)

    if kind == "chain2":
        tasks = {"t0": task("t0", ["0"], 0), "t1": task("t1", ["0"], 1)}
        edges = [edge("t0", "0", "t1", 0)]
        ext = [DatasetId("t1", "0")]
    elif kind == "fork3":
        tasks = {"t0": task("t0", ["a", "b", "c"], 0), "t1": task("t1", ["0"], 1), "t2": task("t2", ["0"], 1), "t3": task("t3", ["0"], 1)}
        edges = [edge("t0", "a", "t1", 0), edge("t0", "b", "t2", 0), edge("t0", "c", "t3", 0)]
        ext = [DatasetId("t1", "0"), DatasetId("t2", "0"), DatasetId("t3", "0")]
    elif kind == "diamond":
        tasks = {"t0": task("t0", ["0"], 0), "t1": task("t1", ["0"], 1), "t2": task("t2", ["0"], 1), "t3": task("t3", ["0"], 2)}
        edges = [edge("t0", "0", "t1", 0), edge("t0", "0", "t2", 0), edge("t1", "0", "t3", 0), edge("t2", "0", "t3", 1)]
        ext = [DatasetId("t3", "0")]
    else:
        raise ValueError(kind)
    return JobInstance(tasks=tasks, edges=edges, ext_outputs=ext)


def body_faults(job: JobInstance):
    out = []
    for t, inst in job.tasks.items():
        n = len(inst.definition.output_schema)
        points = [0] if n == 1 else list(range(n + 1))
        for p in points:
            for kind in ("raise", "exit", "exit0", "kill"):
                out.append({"type": "body", "task": t, "point": p, "kind": kind})
    return out


def execute(cfg: dict, fault: dict | None, deviations: dict | None = None, second_kill: dict | None = None) -> dict:
    """one execution; returns a small picklable record"""
    job = make_job(cfg["job"])
    PLAN.clear()
    del FIRED[:]
    del FIRED_AT[:]
    del TERM_SNAP[:]
    fired_step = [None]

    def on_cluster(cl):
        CLUSTER[0] = cl
        kills = [f for f in (fault, second_kill) if f and f.get("type", "kill-proc") in ("kill-proc", "term-proc")]
        if kills:
            def hook(step, p, cl=cl):
                for f in kills:
                    if step == f["step"]:
                        victims = [q for q in cl.sched.procs if q.name == f["proc"] and q.started and not q.dead and not q.killed]
                        if victims:
                            if f.get("type") == "term-proc":
                                TERM_SNAP[:] = [set(cl.ns.segments)]  # what exists when the signal arrives
                            (cl.sched.term if f.get("type") == "term-proc" else cl.sched.kill)(victims[0])
                            if fired_step[0] is None:
                                fired_step[0] = step
                                FIRED_AT.append(cl.sched.now_ns)
            cl.sched.step_hook = hook

    if fault and fault["type"] == "body":
        PLAN.update(fault)
    # the data server's reads of a dataset it is asked to send: counted per process, and the planned one fails
    import cascade.executor.data_server as ds_mod

    real_client = common.seam(ds_mod, "shm_client")
    ds_gets: dict = {}

    class ClientProxy:
        def __getattr__(self, name):
            return getattr(real_client, name)

        def get(self, *a, **k):
            cur = CLUSTER[0].sched.current if CLUSTER[0] is not None else None
            name = cur.name if cur is not None else "?"
            n = ds_gets.get(name, 0)
            ds_gets[name] = n + 1
            if fault and fault["type"] == "dsread" and fault["proc"] == name and fault["nth"] == n:
                FIRED.append(("dsread", name, n))
                FIRED_AT.append(CLUSTER[0].sched.now_ns)
                raise ValueError("injected: dataset unreadable")
            return real_client.get(*a, **k)

    ds_mod.shm_client = ClientProxy()
    try:
        r = _run(job, cfg, on_cluster, deviations)
    finally:
        ds_mod.shm_client = real_client
    return _record(r, job, cfg, fired_step, ds_gets)


def _run(job, cfg, on_cluster, deviations):
    return vcluster.run_cluster(job, cfg["hosts"], cfg["workers"], horizon_s=HORIZON_S, max_steps=60_000, on_cluster=on_cluster,
                             deviations={int(k): v for k, v in (deviations or {}).items()},
                             wind_down_s=(SLOW_S + 100.0) if cfg["job"].endswith("slow") else 30.0)


def _record(r, job, cfg, fired_step, ds_gets):
    cl = r.pop("cluster")
    fired = bool(FIRED)
    PLAN.clear()  # the reference evaluation below must run fault-free
    exp = sequential_eval(make_job(cfg["job"]))
    rec = {
        "phase1": r["phase1"], "phase2": r.get("phase2"), "steps": r["steps"], "virtual_s": round(r["virtual_s"], 1),
        "exception": None if r["exception"] is None else f"{type(r['exception']).__name__}: {str(r['exception'])[:160]}",
        "alive_after": r["alive_after"], "segments_left": r["segments_left"],
        "fired": fired or fired_step[0] is not None,
        "procs": [(p.name, p.kind) for p in cl.sched.procs], "run_started_step": r.get("run_started_step"),
        "choice_widths": list(r.get("choice_widths", [])),
        "wrong": None, "ds_gets": dict(ds_gets),
        "left_created_after_signal": (sorted(set(r["segments_left"]) - TERM_SNAP[0]) if TERM_SNAP else None),
        "latency_s": None if not FIRED_AT or r.get("ended_at") is None else round((r["ended_at"] - FIRED_AT[0]) / 1e9, 1),
    }
    if r["outputs"] is not None:
        bad = [repr(k) for k in job.ext_outputs if r["outputs"].get(k) != exp[k]]
        rec["wrong"] = bad or None
        rec["returned"] = True
    else:
        rec["returned"] = False
    PLAN.clear()
    return rec


def judge(cfg: dict, fault: dict | None, rec: dict) -> list:
    out = []
    rp = {"cfg": cfg, "fault": fault}
    if fault is None:
        victim = "no fault"
    elif fault["type"] == "body":
        victim = f"task body {fault['kind']}" + (" before any output" if fault["point"] == 0 else " after some/all outputs")
    elif fault["type"] == "dsread":
        victim = "data server cannot read a dataset it is asked to send"
    elif fault["type"] == "term-proc":
        victim = f"{fault['proc'].split(':')[0]} process terminated (SIGTERM)"
    else:
        victim = f"{fault['proc'].split(':')[0]} process killed"
    if rec["phase1"] != "done":
        out.append(({"monitor": "run_hangs", "cause": f"{victim}: controller still waiting after {HORIZON_S:.0f} virtual seconds"}, f"{rp}: {rec}", rp))
        return out
    if cfg["job"].endswith("slow") and fault is not None and not rec["returned"] and rec.get("latency_s") is not None and rec["latency_s"] > LATENCY_BOUND_S:
        out.append(({"monitor": "failure_reported_late", "cause": f"{victim}: the run ended only {LATENCY_BOUND_S:.0f}+ virtual seconds after the failure (it waited for an unrelated long task)"},
                    f"{rp}: ended {rec['latency_s']} s after the fault fired", rp))
    if rec["wrong"]:
        out.append(({"monitor": "wrong_value", "cause": f"{victim}: run returned a wrong or missing value"}, f"{rp}: {rec['wrong']}", rp))
    if fault is None and not rec["returned"]:
        out.append(({"monitor": "fault_free_run_failed", "cause": "the run failed without any injected fault"}, f"{rp}: {rec['exception']}", rp))
    if rec["phase2"] != "done" or rec["alive_after"]:
        kinds = sorted({k for (_, k) in rec["alive_after"]}) or ["executor"]
        out.append(({"monitor": "processes_left_behind", "cause": f"{victim}: {'/'.join(kinds)} still alive 30 virtual seconds after the run ended"}, f"{rp}: alive {rec['alive_after']} phase2 {rec['phase2']}", rp))
    elif rec["segments_left"]:
        cause = f"{victim}: shared-memory segments left behind"
        if rec.get("left_created_after_signal") is not None and sorted(rec["segments_left"]) == rec["left_created_after_signal"]:
            # nothing that existed when the signal arrived is left: only segments a client created afterwards, for an
            # allocation the server had already granted
            cause += " (only segments of allocations in progress at the signal, created by the client after the server's clean-up)"
        out.append(({"monitor": "segments_left_behind", "cause": cause}, f"{rp}: {rec['segments_left']}", rp))
    return out


def config_cases(cfg: dict) -> list:
    """fault-free run first (to learn the steps and process names), then the enumeration"""
    base = execute(cfg, None)
    cases = [(cfg, None, base)]
    faults = body_faults(make_job(cfg["job"]))
    helpers = [n for (n, k) in base["procs"] if k in ("worker", "dataserver", "shm")]
    stride = cfg.get("stride", 1)
    for name in helpers:
        # the property speaks about points of a *run*: kills start once every executor registered and run() began
        for s in range(base["run_started_step"] + 1, base["steps"] + 1, stride):
            faults.append({"type": "kill-proc", "proc": name, "step": s})
    for name in [n for (n, k) in base["procs"] if k == "shm"]:
        # SIGTERM instead of SIGKILL: the shm server has a handler (clean up, leave), so nothing may be left behind
        for s in range(base["run_started_step"] + 1, base["steps"] + 1, max(stride, 3)):
            faults.append({"type": "term-proc", "proc": name, "step": s})
    for name, n in sorted(base.get("ds_gets", {}).items()):
        for k in range(n):
            faults.append({"type": "dsread", "proc": name, "nth": k})
    return [(cfg, f, None) for f in faults], base


def run_case(arg):
    cfg, fault = arg
    rec = common.with_timeout(lambda a: execute(*a), (cfg, fault), 300)
    return (fault, rec, judge(cfg, fault, rec))


def run(ctx):
    cfgs = ctx.pick(
        [{"job": "chain2", "hosts": 1, "workers": 1}, {"job": "chain2", "hosts": 2, "workers": 1}, {"job": "fork3", "hosts": 1, "workers": 2, "stride": 2},
         {"job": "fork3slow", "hosts": 1, "workers": 2, "stride": 40}],
        [{"job": j, "hosts": h, "workers": w} for j in ("chain2", "fork3", "diamond") for (h, w) in ((1, 1), (1, 2), (2, 1), (2, 2))]
        + [{"job": "fork3slow", "hosts": 1, "workers": 2, "stride": 10}, {"job": "diamondslow", "hosts": 2, "workers": 2, "stride": 25}],
    )
    evaluations = 0
    fired = set()
    histogram: dict = {}
    for cfg in common.rotate(cfgs, ctx.seed):
        cases, base = config_cases(cfg)
        for sig, msg, rp in judge(cfg, None, base):
            ctx.add_violation(common.Violation(sig, msg, rp))
        res = common.pmap(run_case, [(c, f) for (c, f, _) in cases], chunksize=4)
        for fault, rec, viols in res:
            evaluations += 1
            if rec["fired"]:
                fired.add((cfg["job"], cfg["hosts"], cfg["workers"], fault["type"], fault.get("task") or fault.get("proc"), fault.get("point") if fault["type"] == "body" else fault.get("step", fault.get("nth")), fault.get("kind")))
            outcome = "hang" if rec["phase1"] != "done" else ("returned" if rec["returned"] else "raised")
            histogram[outcome] = histogram.get(outcome, 0) + 1
            for sig, msg, rp in viols:
                ctx.add_violation(common.Violation(sig, msg, rp))
        ctx.sample({"cfg": cfg, "fault_free": {k: base[k] for k in ("steps", "virtual_s", "procs")}, "example_fault": cases[len(cases) // 2][1]}, cap=3)
    if not ctx.quick:
        from vf import c05_ext

        ext = c05_ext.run(ctx)
        ctx.coverage["extensions"] = ext
        evaluations += sum(ext.values())
    real = real_validation(ctx, ctx.pick(2, 8))
    ctx.coverage["real_process_validations"] = real
    ctx.coverage.update(
        evaluations=evaluations, distinct_nontrivial=len(fired), exhaustive=all("stride" not in c for c in cfgs), outcomes=histogram,
        rule="per (job, cluster shape): every task x every body point (before the first output, after k of N outputs, after the last) x {raise, sys.exit(3), sys.exit() with status 0, kill}; every helper process (worker, data server, shm server) x every scheduler step of the fault-free default schedule (stride given per config); every read a data server performs of a dataset it is asked to send, failing; SIGTERM to the shm server at every third step. Non-trivial = the fault actually fired before the run ended (distinct by victim x point x kind)",
        configs=cfgs, horizon_virtual_s=HORIZON_S,
    )
    ctx.assume("default schedule (first ready process, timers only when nothing else is enabled); one fault per execution",
               "a killed virtual process is unwound with a BaseException and its seam calls become no-ops; real signal delivery, zombie reaping and fork semantics are outside the model",
               "faults of the executor process itself or of the controller are excluded by the property")


REAL_FAULTS = [
    {"job": "chain2", "hosts": 1, "workers": 1, "fault": {"type": "body", "task": "t0", "point": 0, "kind": "raise"}},
    {"job": "chain2", "hosts": 1, "workers": 1, "fault": {"type": "body", "task": "t1", "point": 0, "kind": "kill"}},
    {"job": "chain2", "hosts": 1, "workers": 1, "fault": None},
    {"job": "fork3", "hosts": 1, "workers": 2, "fault": {"type": "body", "task": "t0", "point": 2, "kind": "exit"}},
    {"job": "fork3", "hosts": 2, "workers": 1, "fault": {"type": "body", "task": "t0", "point": 1, "kind": "raise"}},
    {"job": "diamond", "hosts": 2, "workers": 1, "fault": {"type": "body", "task": "t3", "point": 0, "kind": "kill"}},
    {"job": "diamond", "hosts": 2, "workers": 2, "fault": None},
    {"job": "chain2", "hosts": 1, "workers": 1, "fault": {"type": "body", "task": "t1", "point": 0, "kind": "exit0"}},
    {"job": "fork3", "hosts": 1, "workers": 2, "fault": {"type": "body", "task": "t0", "point": 3, "kind": "kill"}},
]


def _real_once(spec: dict):
    """one fault on a real multi-process local cluster -> (record, [(signature, message, replay)])"""
    import glob
    import json
    import os
    import subprocess
    import sys

    cfg = {k: spec[k] for k in ("job", "hosts", "workers")}
    virt = execute(cfg, spec["fault"])
    v_outcome = "hang" if virt["phase1"] != "done" else ("returned" if virt["returned"] else "raised")
    env = dict(os.environ, PYTHONPATH=f"{common.REPO_SRC}:{common.VERIF}")
    import signal

    pr = subprocess.Popen([sys.executable, "-W", "ignore", "-m", "vf.realcluster", json.dumps(dict(spec, deadline_s=90))], stdout=subprocess.PIPE, stderr=subprocess.PIPE,
                          text=True, env=env, start_new_session=True, cwd=common.VERIF)
    try:
        stdout, stderr = pr.communicate(timeout=240)
    except subprocess.TimeoutExpired:
        try:
            os.killpg(pr.pid, signal.SIGKILL)  # the run leads its own session: nothing of it may outlive the check
        except OSError:
            pass
        pr.communicate()
        raise common.HarnessError(f"real cluster validation run timed out: {spec}")
    line = [ln for ln in stdout.splitlines() if ln.startswith("RESULT")]
    if not line:
        raise common.HarnessError(f"real cluster validation run produced no result: {spec}\n{stderr[-800:]}")
    real = json.loads(line[0][6:])
    for h in real.get("hostnames", []):
        for f in glob.glob(f"/tmp/{h}.*.socket"):
            try:
                os.unlink(f)
            except OSError:
                pass
    for f in real["shm_left"]:
        try:
            os.unlink(os.path.join("/dev/shm", f))
        except OSError:
            pass
    rec = {"spec": spec, "virtual": v_outcome, "real": real["outcome"], "real_wall_s": real["wall_s"], "executors_alive": len(real["executors_alive"]), "shm_left": len(real["shm_left"])}
    rp = {"cfg": cfg, "fault": spec["fault"], "real": True, "spec": spec}
    victim = "no fault" if spec["fault"] is None else f"task body {spec['fault']['kind']}"
    viols = []
    if real["outcome"] == "hang":
        viols.append(({"monitor": "run_hangs", "cause": f"real processes, {victim}: controller still waiting after 90 s"}, f"{rec}", rp))
    elif real["wrong"]:
        viols.append(({"monitor": "wrong_value", "cause": f"real processes, {victim}: wrong value"}, f"{rec}", rp))
    elif real["executors_alive"] or real["shm_left"]:
        viols.append(({"monitor": "processes_left_behind" if real["executors_alive"] else "segments_left_behind", "cause": f"real processes, {victim}: leftovers after the run"}, f"{rec}", rp))
    mismatch = None
    if real["outcome"] != v_outcome and real["outcome"] != "hang":
        mismatch = f"virtual cluster predicts '{v_outcome}' but the real cluster gave '{real['outcome']}' ({real.get('exception')}) for {spec}"
    return rec, viols, mismatch


def real_one(spec: dict):
    """Real processes run in real time: on a heavily loaded machine a registration or a resend grace can time out. A
    run that disagrees with the virtual cluster's prediction is therefore repeated (up to 3 runs); only a persistent
    disagreement is reported as 'the model misrepresents the code' (harness error)."""
    last = None
    for attempt in range(3):
        rec, viols, mismatch = _real_once(spec)
        rec["attempt"] = attempt + 1
        if mismatch is None:
            return rec, viols
        last = mismatch
    raise common.HarnessError(f"{last}: the model misrepresents the code (3 runs)")


def real_validation(ctx, n: int) -> list:
    """A fixed list of faults replayed on a real multi-process local cluster; the outcome class must be the one the
    virtual cluster predicts and nothing may be left behind. These runs validate the model and also catch what only
    real processes and sockets show (socket options, exit codes, process trees)."""
    out = []
    for spec in REAL_FAULTS[:n]:
        rec, viols = real_one(spec)
        if viols:
            # real time is not owned by the harness: an observation counts only if two more runs show it again
            again = [real_one(spec)[1] for _ in range(2)]
            keys = lambda vs: sorted(common.sig_key(sig) for sig, _, _ in vs)  # noqa: E731
            if not all(keys(a) == keys(viols) for a in again):
                rec["transient_observation"] = [sig for sig, _, _ in viols]
                viols = []
        out.append(rec)
        for sig, msg, rp in viols:
            ctx.add_violation(common.Violation(sig, msg, rp))
    return out


def replay(ctx, data):
    if data.get("real"):
        if "spec" not in data:
            return []
        _, viols = real_one(data["spec"])
        return [common.Violation(sig, msg, rp) for sig, msg, rp in viols]
    if data.get("second_kill"):
        from vf import c05_ext

        _, v = c05_ext._run_pair((data["cfg"], data["fault"], data["second_kill"]))
        return [common.Violation(sig, msg, rp) for sig, msg, rp in v]
    rec = execute(data["cfg"], data["fault"], deviations=data.get("deviations"))
    return [common.Violation(sig, msg, rp) for sig, msg, rp in judge(data["cfg"], data["fault"], rec)]
