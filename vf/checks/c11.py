"""C11 - graph transformations preserve the computation the graph denotes.
Bounded-exhaustive: all DAGs with n <= 4 (quick) / 5 (thorough) nodes x payload patterns x output patterns x name sets,
through copy / rename / deduplicate / fuse / expand / split, each compared with a symbolic interpreter (names excluded)
and the structural side conditions of the statement."""
from __future__ import annotations

import itertools

from earthkit.workflows.graph import (
    Graph,
    Node,
    Output,
    copy_graph,
    deduplicate_nodes,
    expand_graph,
    fuse_nodes,
    rename_nodes,
    split_graph,
)
from earthkit.workflows.graph import join_namespaced

from vf import common
from vf.graphs import with_double_edges, GraphSpec, Interp, Malformed, all_nodes, dag_specs, freeze, with_swapped_twins

PROP = "C11"


def V(mon, cause, msg):
    return ({"monitor": mon, "cause": cause}, msg)


def where_of(e: BaseException) -> str:
    import traceback

    tb = traceback.extract_tb(e.__traceback__)
    inner = [f for f in tb if "/repo/src" in f.filename]
    if not inner:
        raise common.HarnessError(f"harness exception {e!r}\n{traceback.format_exc()}")
    return f"{inner[-1].filename.split('/')[-1]}:{inner[-1].name}"


def terms_of_sinks(g: Graph, interp=None):
    it = interp or Interp()
    return [it.sink_terms(s) for s in g.sinks]


def wellformed(g: Graph):
    for n in g.nodes():
        for iname, src in n.inputs.items():
            if not isinstance(src, Output) or not isinstance(src.parent, Node):
                raise Malformed(f"input {iname!r} of {n.name!r} is {type(src).__name__}")


# ---------------------------------------------------------------- copy
def t_copy(spec: GraphSpec):
    out = []
    g, objs = spec.build()
    before = terms_of_sinks(g)
    names_before = [o.name for o in objs]
    try:
        c = copy_graph(g)
        wellformed(c)
        after = terms_of_sinks(c)
    except Malformed as e:
        return [V("copy_malformed", "a consumer's input is not an Output of a Node", f"{spec.tag}: {e}")]
    except Exception as e:
        return [V("copy_raised", f"{type(e).__name__} in {where_of(e)}", f"{spec.tag}: {e!r}")]
    if after != before:
        out.append(V("copy_changes_denotation", "a sink of the copy denotes a different expression", spec.tag))
    if terms_of_sinks(g) != before or [o.name for o in objs] != names_before:
        out.append(V("copy_mutates_original", "copying changed the original graph", spec.tag))
    if {id(n) for n in c.nodes()} & {id(n) for n in g.nodes()}:
        out.append(V("copy_shares_nodes", "copy shares node objects with the original", spec.tag))
    if not (c == g):
        out.append(V("copy_not_equal", "copy is not structurally equal (Graph.__eq__) to the original", spec.tag))
    return out


# ---------------------------------------------------------------- rename
RENAMERS = {
    "identity": lambda s: s,
    "prefix": lambda s: "pre." + s,
    "injective": lambda s: s[::-1] + "#" + str(len(s)),
}


def t_rename(spec: GraphSpec):
    out = []
    for rname, f in RENAMERS.items():
        g, objs = spec.build()
        before = terms_of_sinks(g)
        names = sorted(n.name for n in g.nodes())
        try:
            r = rename_nodes(f, g)
            wellformed(r)
            after = terms_of_sinks(r)
        except Malformed as e:
            out.append(V("rename_malformed", "a consumer's input is not an Output of a Node", f"{spec.tag}/{rname}: {e}"))
            continue
        except Exception as e:
            out.append(V("rename_raised", f"{type(e).__name__} in {where_of(e)}", f"{spec.tag}/{rname}: {e!r}"))
            continue
        if after != before:
            out.append(V("rename_changes_denotation", "a sink denotes a different expression after renaming", f"{spec.tag}/{rname}"))
        if sorted(n.name for n in r.nodes()) != sorted(map(f, names)):
            out.append(V("rename_names", "names are not the images of the original names", f"{spec.tag}/{rname}"))
    return out


def t_join_ns(spec: GraphSpec):
    """join_namespaced: the union of two graphs with every node name prefixed by its namespace"""
    out = []
    g1, o1 = spec.build()
    g2, o2 = spec.build()
    before = terms_of_sinks(g1) + terms_of_sinks(g2)
    names = [n.name for n in o1]
    try:
        j = join_namespaced(left=g1, right=g2)
        wellformed(j)
        after = terms_of_sinks(j)
    except Malformed as e:
        return [V("join_ns_malformed", "a consumer's input is not an Output of a Node", f"{spec.tag}: {e}")]
    except Exception as e:
        return [V("join_ns_raised", f"{type(e).__name__} in {where_of(e)}", f"{spec.tag}: {e!r}")]
    if after != before:
        out.append(V("join_ns_changes_denotation", "a sink of the joined graph denotes a different expression", spec.tag))
    want = sorted([f"left.{n}" for n in names] + [f"right.{n}" for n in names])
    if sorted(n.name for n in j.nodes()) != want:
        out.append(V("join_ns_names", "names are not the namespaced images of the original names", f"{spec.tag}: {sorted(n.name for n in j.nodes())[:6]}"))
    return out


# ---------------------------------------------------------------- deduplicate
def node_signature(n: Node):
    return (freeze(n.payload), tuple(n.outputs), frozenset((i, id(s.parent), s.name) for i, s in n.inputs.items()))


def t_dedup(spec: GraphSpec):
    out = []
    g, _ = spec.build()
    before = set(terms_of_sinks(g))
    try:
        d = deduplicate_nodes(g)
        wellformed(d)
        after = set(terms_of_sinks(d))
    except Malformed as e:
        return [V("dedup_malformed", "a consumer's input is not an Output of a Node", f"{spec.tag}: {e}")]
    except Exception as e:
        return [V("dedup_raised", f"{type(e).__name__} in {where_of(e)}", f"{spec.tag}: {e!r}")]
    if after != before:
        out.append(V("dedup_changes_denotation", "the set of sink denotations changed", spec.tag))
    nodes = all_nodes(d)
    if any(isinstance(n.payload, tuple) for n in nodes):
        # payloads that hold numpy arrays have no truth-valued `==`: the library leaves such nodes unmerged (safe);
        # completeness of the merge is only demanded where equality of payloads is decidable by `==`
        return out
    sigs = [node_signature(n) for n in nodes]
    if len(set(sigs)) != len(sigs):
        out.append(V("dedup_leaves_duplicates", "two nodes with equal payload, outputs and inputs remain", spec.tag))
    it = Interp()
    denots = [it.sink_terms(n) if not n.outputs else tuple(it.node_value(n, o) for o in n.outputs) for n in nodes]
    if len(set(denots)) != len(denots):
        out.append(V("dedup_leaves_equal_expressions", "two remaining nodes denote the same expression", spec.tag))
    try:
        d2 = deduplicate_nodes(d)
        n2 = all_nodes(d2)
        if len(n2) != len(nodes) or sorted(map(repr, (node_signature(n) for n in n2))) != sorted(map(repr, sigs)) or set(terms_of_sinks(d2)) != after:
            out.append(V("dedup_not_idempotent", "a second de-duplication changes the graph", spec.tag))
    except Exception as e:
        out.append(V("dedup_raised", f"{type(e).__name__} in {where_of(e)} (second pass)", f"{spec.tag}: {e!r}"))
    return out


# ---------------------------------------------------------------- fuse
def unfold(payload, oname, ins):
    """evaluate a (possibly fused) payload: ("F", cur_payload, cur_in, parent_payload, parent_out)"""
    if isinstance(payload, tuple) and len(payload) == 5 and payload[0] == "F":
        _, cp, cin, pp, pout = payload
        pref = cin + ">"
        p_ins = {k[len(pref):]: v for k, v in ins.items() if k.startswith(pref)}
        c_ins = {k: v for k, v in ins.items() if not k.startswith(pref)}
        c_ins[cin] = unfold(pp, pout, p_ins)
        return unfold(cp, oname, c_ins)
    return ("V", freeze(payload), oname, frozenset(ins.items()))


def fuser(pred):
    def cb(parent: Node, pout: str, cur: Node, cin: str):
        if not pred(parent, cur):
            return None
        ins = {k: v for k, v in cur.inputs.items() if k != cin}
        for k, v in parent.inputs.items():
            ins[f"{cin}>{k}"] = v
        return Node(f"{parent.name}+{cur.name}", list(cur.outputs), ("F", cur.payload, cin, parent.payload, pout), **ins)

    return cb


def base_payload(p):
    while isinstance(p, tuple) and len(p) == 5 and p[0] == "F":
        p = p[1]
    return p


def fuser_in_place(pred):
    """a callback that fuses by rewriting the current node and returning that same object"""
    def cb(parent: Node, pout: str, cur: Node, cin: str):
        if not pred(parent, cur):
            return None
        ins = {k: v for k, v in cur.inputs.items() if k != cin}
        for k, v in parent.inputs.items():
            ins[f"{cin}>{k}"] = v
        cur.payload = ("F", cur.payload, cin, parent.payload, pout)
        cur.inputs = ins
        return cur

    return cb


FUSERS = {
    "in-place": fuser_in_place(lambda p, c: True),
    "never": fuser(lambda p, c: False),
    "always": fuser(lambda p, c: True),
    "when-parent-p": fuser(lambda p, c: base_payload(p.payload) == "p"),
}


def t_fuse(spec: GraphSpec):
    out = []
    for fname, cb in FUSERS.items():
        g, _ = spec.build()
        before = terms_of_sinks(g, Interp(unfold))
        n_before = len(all_nodes(g))
        # which parents may legally disappear: exactly one consuming edge
        edges_into = {}
        for n in g.nodes():
            for s in n.inputs.values():
                edges_into[id(s.parent)] = edges_into.get(id(s.parent), 0) + 1
        try:
            r = fuse_nodes(cb, g)
            wellformed(r)
            after = terms_of_sinks(r, Interp(unfold))
        except Malformed as e:
            out.append(V("fuse_malformed", "a consumer's input is not an Output of a Node", f"{spec.tag}/{fname}: {e}"))
            continue
        except Exception as e:
            out.append(V("fuse_raised", f"{type(e).__name__} in {where_of(e)}", f"{spec.tag}/{fname}: {e!r}"))
            continue
        if after != before:
            out.append(V("fuse_changes_denotation", "a sink denotes a different expression after fusion", f"{spec.tag}/{fname}"))
        if fname == "never" and len(all_nodes(r)) != n_before:
            out.append(V("fuse_never_changed_graph", "node count changed although the callback never fuses", f"{spec.tag}"))
    return out


# ---------------------------------------------------------------- expand
def subgraphs():
    """sub-graph shapes (2-3 nodes) as builders: names are given by the caller so that they can collide with the parent"""
    def chain(nm):      # src -> leaf
        s = Node(nm[0], payload="s0")
        return Graph([Node(nm[1], outputs=[], payload="l0", x=s)]), [nm[0]], [nm[1]]

    def two_src(nm):    # src0, src1 -> leaf
        s0, s1 = Node(nm[0], payload="s0"), Node(nm[1], payload="s1")
        return Graph([Node(nm[2], outputs=[], payload="l0", x=s0, y=s1)]), [nm[0], nm[1]], [nm[2]]

    def mid(nm):        # src -> mid -> leaf
        s = Node(nm[0], payload="s0")
        m = Node(nm[1], payload="m0", x=s)
        return Graph([Node(nm[2], outputs=[], payload="l0", x=m)]), [nm[0]], [nm[2]]

    def two_leaf(nm):   # src -> leaf0, leaf1
        s = Node(nm[0], payload="s0")
        return Graph([Node(nm[1], outputs=[], payload="l0", x=s), Node(nm[2], outputs=[], payload="l1", x=s)]), [nm[0]], [nm[1], nm[2]]

    def extra(nm):      # mapped src -> leaf ; unmapped src2 -> inner sink
        s = Node(nm[0], payload="s0")
        s2 = Node(nm[1] + "_free", payload="s2")
        return Graph([Node(nm[2], outputs=[], payload="l0", x=s), Node(nm[1] + "_inner", outputs=[], payload="i0", y=s2)]), [nm[0]], [nm[2]]

    return {"chain": chain, "two_src": two_src, "mid": mid, "two_leaf": two_leaf, "extra": extra}


LEAF_NAMESETS = {
    "plain": ["src0", "src1", "leaf"],
    "prefix-chars": ["in", "ni", "a_out"],       # characters shared with parents named main/m/ma/a/n/in
    "same-as-parent": ["m", "n", "main"],
    "dotted": ["x.y", "m.a", "main.a"],
}


def ref_sub_term(sub_nodes, leaf: Node, mapped_src: dict[str, tuple], memo):
    """reference evaluation of a sub-graph node: mapped sources become (payload, {"input": outer term}); the
    designated leaves are re-created with the single default output"""

    def nv(n: Node, oname):
        k = (id(n), oname)
        if k in memo:
            return memo[k]
        if not n.inputs and n.name in mapped_src:
            t = ("V", freeze(n.payload), oname, frozenset({("input", mapped_src[n.name])}))
        else:
            t = ("V", freeze(n.payload), oname, frozenset((i, nv(s.parent, s.name)) for i, s in n.inputs.items()))
        memo[k] = t
        return t

    return nv(leaf, Node.DEFAULT_OUTPUT)


def t_expand(spec: GraphSpec):
    out = []
    g0, objs0 = spec.build()
    consumers = {}
    for n in objs0:
        for iname, s in n.inputs.items():
            consumers.setdefault(objs0.index(s.parent), []).append((objs0.index(n), iname, s.name))
    targets = [i for i in range(len(objs0)) if i in consumers]
    # terminal nodes that declare outputs (every fluent graph ends in such nodes): nothing consumes them, so after the
    # expansion the selected leaves must be sinks of the result
    terminal = [i for i in range(len(objs0)) if i not in consumers and objs0[i].outputs and objs0[i].inputs]
    targets = targets + terminal
    shapes = subgraphs()
    for ti in targets:
        for shape_name, mk in shapes.items():
            for ns_name, leafnames in LEAF_NAMESETS.items():
                for maps in ("explicit", "default", "explicit-partial"):
                    tag = f"{spec.tag}/expand n{ti} {shape_name}/{ns_name}/{maps}"
                    g, objs = spec.build()
                    target = objs[ti]
                    t_inputs = list(target.inputs)
                    t_outputs = list(target.outputs)
                    sub, src_names, leaf_names = mk(leafnames)
                    if maps == "default":
                        # default maps: a source is mapped when it has the name of an input; an output maps to the sink
                        # with its name -- so the sub-graph must be named accordingly
                        ren = {}
                        for k, sname in enumerate(src_names):
                            if k < len(t_inputs):
                                ren[sname] = t_inputs[k]
                        for k, oname in enumerate(t_outputs):
                            ren[leaf_names[k % len(leaf_names)]] = oname
                        if len(set(ren.values())) != len(ren):
                            continue
                        for n in sub.nodes():
                            if n.name in ren:
                                n.name = ren[n.name]
                        src_names = [ren.get(s, s) for s in src_names]
                        leaf_names = [ren.get(s, s) for s in leaf_names]
                        input_map = None
                        output_map = None
                        eff_in = {s: s for s in src_names if s in t_inputs}
                        eff_out = {o: o for o in t_outputs}
                        if any(o not in leaf_names for o in t_outputs):
                            continue
                    elif maps == "explicit-partial":
                        # an explicit map that names only the first source; the second source is NOT mapped but carries
                        # the name of one of the expanded node's inputs -- it must be left as it is
                        if len(src_names) < 2 or not t_inputs:
                            continue
                        clash = t_inputs[-1]
                        if any(n.name == clash for n in sub.nodes()):
                            continue
                        for n in sub.nodes():
                            if n.name == src_names[1]:
                                n.name = clash
                        src_names = [src_names[0], clash]
                        input_map = {src_names[0]: t_inputs[0]}
                        output_map = {o: leaf_names[k % len(leaf_names)] for k, o in enumerate(t_outputs)}
                        eff_in, eff_out = input_map, output_map
                    else:
                        input_map = {s: t_inputs[k] for k, s in enumerate(src_names) if k < len(t_inputs)}
                        output_map = {o: leaf_names[k % len(leaf_names)] for k, o in enumerate(t_outputs)}
                        eff_in, eff_out = input_map, output_map
                    # reference terms
                    it = Interp()
                    outer_in = {iname: it.out_term(src) for iname, src in target.inputs.items()}
                    mapped = {s: outer_in[i] for s, i in eff_in.items()}
                    sub_by_name = {n.name: n for n in sub.nodes()}
                    memo: dict = {}
                    expect_out = {o: ref_sub_term(sub_by_name, sub_by_name[l], mapped, memo) for o, l in eff_out.items()}
                    # expected denotation of every consumer input that pointed at the target
                    want = {(ci, iname): expect_out[oname] for (ci, iname, oname) in consumers.get(ti, [])}
                    names_of = {id(n): i for i, n in enumerate(objs)}

                    def expander(n, target=target, sub=sub, input_map=input_map, output_map=output_map):
                        if n is target:
                            return sub if input_map is None and output_map is None else (sub, input_map, output_map)
                        return None

                    try:
                        r = expand_graph(expander, g)
                        wellformed(r)
                        it2 = Interp()
                        for n in r.nodes():
                            idx = names_of.get(id(n))
                            if idx is None:
                                continue
                            for iname, src in n.inputs.items():
                                if (idx, iname) in want:
                                    got = it2.out_term(src)
                                    if src.name != Node.DEFAULT_OUTPUT:
                                        out.append(V("expand_wiring", "consumer not wired to the default output of the leaf", tag))
                                    elif got != want[(idx, iname)]:
                                        out.append(V("expand_wiring", "consumer wired to a node that denotes something else than the selected leaf", tag))
                                    want.pop((idx, iname))
                        if ti in terminal:
                            sink_terms = [it2.sink_terms(sk) for sk in r.sinks]
                            for o, t_ in expect_out.items():
                                if (t_,) not in sink_terms:
                                    out.append(V("expand_drops_terminal", "the expansion of a terminal node is not among the sinks of the result", f"{tag}: output {o!r}; sinks {[sk.name for sk in r.sinks]}"))
                                    break
                        if want and all(names_of.get(id(n)) is not None or True for n in r.nodes()):
                            # consumers that vanished from the result graph
                            reachable = {names_of.get(id(n)) for n in r.nodes()}
                            lost = [k for k in want if k[0] in reachable]
                            if lost:
                                out.append(V("expand_wiring", "a consumer input was not rewired", f"{tag}: {lost}"))
                    except Malformed as e:
                        cause = "a consumer's input is not an Output of a Node"
                        out.append(V("expand_malformed", cause, f"{tag}: {e}"))
                    except Exception as e:
                        out.append(V("expand_raised", f"{type(e).__name__} in {where_of(e)}", f"{tag}: {e!r}"))
    return out


# ---------------------------------------------------------------- split
def t_split(spec: GraphSpec):
    out = []
    keyfuncs = {
        "constant": lambda names: (lambda n: 0),
        "parity": lambda names: (lambda n: names[id(n)] % 2),
        "per-node": lambda names: (lambda n: names[id(n)]),
        "by-payload": lambda names: (lambda n: str(n.payload)),
    }
    for kname, mk in keyfuncs.items():
        g, objs = spec.build()
        idx = {id(n): i for i, n in enumerate(objs)}
        orig_names = [n.name for n in objs]
        it = Interp()
        before = {n.name: (it.sink_terms(n) if not n.outputs else tuple(it.node_value(n, o) for o in n.outputs)) for n in objs}
        tag = f"{spec.tag}/split {kname}"
        try:
            parts, cuts = split_graph(mk(idx), g)
            for p in parts.values():
                wellformed(p)
        except Malformed as e:
            out.append(V("split_malformed", "a consumer's input is not an Output of a Node", f"{tag}: {e}"))
            continue
        except Exception as e:
            out.append(V("split_raised", f"{type(e).__name__} in {where_of(e)}", f"{tag}: {e!r}"))
            continue
        cut_names = {c.name for c in cuts}
        placed = []
        for k, p in parts.items():
            for n in p.nodes():
                if n.name not in cut_names:
                    placed.append(n.name)
        if sorted(placed) != sorted(orig_names):
            out.append(V("split_partition", "nodes are not placed in exactly one part each", f"{tag}: {sorted(placed)} vs {sorted(orig_names)}"))
            continue
        if len(cut_names) != len(cuts):
            out.append(V("split_cut_names", "two cut edges share a name", tag))
            continue
        # the reported cuts are exactly the edges of the original graph whose ends got different keys -- one record per
        # (consumer, input), also when one output crosses into the same part several times
        kf = mk(idx)
        g0, objs0 = spec.build()
        idx0 = {id(n): i for i, n in enumerate(objs0)}
        kf0 = mk(idx0)
        want_cuts = sorted((s.parent.name, s.name, n.name, iname) for n in objs0 for iname, s in n.inputs.items() if kf0(s.parent) != kf0(n))
        got_cuts = sorted((c.source_node, c.source_output, c.dest_node, c.dest_input) for c in cuts)
        if got_cuts != want_cuts:
            out.append(V("split_cut_records", "the reported cut edges are not exactly the edges that cross between parts", f"{tag}: {got_cuts} vs {want_cuts}"))
            continue
        # re-join along the cut edges: a placeholder source named after a cut denotes the input of the sink of that name
        sink_of = {}
        for p in parts.values():
            for n in p.nodes():
                if n.name in cut_names and n.inputs:
                    sink_of[n.name] = n
        memo: dict = {}

        def nv(n: Node, oname):
            if n.name in cut_names and not n.inputs:  # placeholder source
                s = sink_of.get(n.name)
                if s is None:
                    raise Malformed(f"cut {n.name} has no sink")
                src = list(s.inputs.values())[0]
                return nv(src.parent, src.name)
            k = (id(n), oname)
            if k not in memo:
                memo[k] = ("V", freeze(n.payload), oname, frozenset((i, nv(s.parent, s.name)) for i, s in n.inputs.items()))
            return memo[k]

        try:
            after = {}
            for p in parts.values():
                for n in p.nodes():
                    if n.name not in cut_names:
                        after[n.name] = tuple(nv(n, o) for o in (n.outputs if n.outputs else [None]))
        except Malformed as e:
            out.append(V("split_malformed", "re-joining along the cut edges fails", f"{tag}: {e}"))
            continue
        if after != before:
            out.append(V("split_rejoin_differs", "parts re-joined along the cut edges differ from the original", tag))
        for c in cuts:
            if c.source_key == c.dest_key:
                out.append(V("split_cut_within_part", "a reported cut edge joins two nodes of the same part", tag))
    return out


TRANSFORMS = {"copy": t_copy, "join_ns": t_join_ns, "rename": t_rename, "dedup": t_dedup, "fuse": t_fuse, "expand": t_expand, "split": t_split}


def specs_for(ctx):
    maxn = ctx.pick(4, 5)
    specs = []
    for n in range(1, maxn + 1):
        specs += dag_specs(n, "unique")
        if n <= 4:
            specs += dag_specs(n, "colliding", payloads=("alt",))
    if not ctx.quick:
        # output names that shadow Node attributes
        for n in (2, 3):
            specs += dag_specs(n, "unique", payloads=("alt",), outputs=("multi",), out_names=("name", "payload"))
        # every 6-node DAG, one payload pattern with shared sub-expressions, two output patterns (expand is limited to n<=4)
        specs += dag_specs(6, "unique", payloads=("by-depth",), outputs=("default", "multi"))
        specs += dag_specs(5, "colliding", payloads=("by-depth",), outputs=("multi",))
    else:
        specs += dag_specs(2, "unique", payloads=("alt",), outputs=("multi",), out_names=("name", "payload"))
    # nodes with the same payload and parents but swapped input bindings
    for n in ((3,) if ctx.quick else (3, 4)):
        for sp in dag_specs(n, "unique", payloads=("all-p",), outputs=("default", "multi")):
            tw = with_swapped_twins(sp)
            if tw is not None:
                specs.append(tw)
    # named outputs next to the default output name
    for n in ((2, 3) if ctx.quick else (2, 3, 4)):
        specs += dag_specs(n, "unique", payloads=("alt",), outputs=("multi",), out_names=("0", "b"))
    for n in (2, 3):
        specs += dag_specs(n, "unique", payloads=("alt",), outputs=("single-named",), out_names=("result",))
    # payloads holding numpy arrays (equal contents, distinct objects)
    for n in (2, 3):
        specs += dag_specs(n, "unique", payloads=("arrays",), outputs=("default",))
    # two inputs of one node wired to one upstream output
    for n in ((2, 3) if ctx.quick else (2, 3, 4)):
        for sp in dag_specs(n, "unique", payloads=("alt",), outputs=("default", "multi")):
            de = with_double_edges(sp)
            if de is not None:
                specs.append(de)
    # sink lists as unions produce them (`g1 + g2` with g2 extending g1): interior nodes listed as sinks too, one sink twice
    for n in ((2, 3) if ctx.quick else (2, 3, 4)):
        for sp in dag_specs(n, "unique", payloads=("alt",), outputs=("default", "multi")):
            if sp.edges:
                specs.append(GraphSpec(sp.nodes, sp.edges, sp.tag + ":overlap-sinks", sinks="overlap"))
    return specs


def run_one(arg):
    spec_json, tnames = arg
    spec = GraphSpec.from_json(spec_json)
    res = []
    for t in tnames:
        if t == "split" and len({n["name"] for n in spec.nodes}) != len(spec.nodes):
            continue  # split identifies nodes by name
        if t == "expand" and len(spec.nodes) > 4:
            continue
        for sig, msg in common.with_timeout(TRANSFORMS[t], spec, 60):
            res.append((sig, msg, {"spec": spec_json, "transform": t}))
    return res


def run(ctx):
    specs = specs_for(ctx)
    args = [(s.describe(), list(TRANSFORMS)) for s in specs]
    args = common.rotate(args, ctx.seed)
    nchunk = 128
    chunks = [args[i::nchunk] for i in range(nchunk) if args[i::nchunk]]
    res = common.pmap(lambda ch: [run_one(a) for a in ch], chunks)
    n = 0
    for ch in res:
        for r in ch:
            for sig, msg, rp in r:
                ctx.add_violation(common.Violation(sig, msg, rp))
    nontrivial = {s.tag for s in specs if s.edges}
    ctx.coverage.update(
        evaluations=len(specs) * len(TRANSFORMS), distinct_nontrivial=len(nontrivial), exhaustive=True, graphs=len(specs),
        rule="every edge set on n<=%d (thorough: plus all 6-node DAGs in two patterns) labelled nodes x payload patterns {all-p, alternating, by-depth} x output patterns {default, two outputs on producers, no outputs on terminals} x names {unique; colliding alphabet main/m/ma/a/main.a/x.y/in/n}, plus outputs named 'name'/'payload'; transformations: copy, rename x3, dedup (+idempotence), fuse x3 callbacks, expand (every consumed node x 5 sub-graph shapes x 4 leaf name sets x explicit/default maps; n<=4), split x4 keys. Non-trivial = graph has an edge" % ctx.pick(4, 5),
    )
    ctx.sample(specs[len(specs) // 2].describe())
    ctx.sample({"expand": "node n0 replaced by sub-graph src->leaf named in/a_out under parent 'main', consumers must be wired to the leaf's default output"})
    ctx.assume("single-node sub-graphs (a node that is source and designated leaf at once) are outside the expand alphabet",
               "graphs above 5 nodes and names outside the alphabet are outside the bound")


def replay(ctx, data):
    return [common.Violation(sig, msg, rp) for sig, msg, rp in run_one((data["spec"], [data["transform"]]))]
