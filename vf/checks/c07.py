"""C07 - a transfer stores the dataset once, byte-identical, and announces it once.
Explicit-state BFS over real DataServer objects (hosts A, B) and a real controller Listener, stepped one recv_loop pass
at a time: all interleavings of {issue command, deliver/drop/duplicate frame, loop pass, complete future (any order),
4 s retry timer} per scenario and fault budget; fair-closure end-state oracle evaluated from every reachable state."""
import time

from vf import bfs, common, dsworld

PROP = "C07"


def run(ctx):
    tot_s = tot_t = 0
    bounds = []
    quick_plan = [(n, 1, 0) for n in ["T", "T,T'", "T+fetch", "T;purge@B", "T,T';purge@B", "T;purge@A", "T-to-holder", "T(d:A>B),T(e:B>A)", "T(d),T(e);purge(e)@A", "T+fetch;purge@A", "T(d),T(e);purge(e)@A siblings", "T;store-refused@B"]] + [("T", 1, 1), ("T;purge@B", 0, 1)]  # the last two: a resend timer firing while frames are still in flight
    thorough_plan = (
        [(n, 2, 0) for n in ["T", "T,T'", "T+fetch", "T-to-holder", "T(d:A>B),T(e:B>A)"]]
        + [(n, 2, 1) for n in ["T;purge@B", "T;purge@A", "T;store-refused@B"]]
        + [(n, 1, 1) for n in ["T,T';purge@B", "T(d),T(e);purge(e)@A", "T(d),T(e)", "T+fetch", "T,T'", "T+fetch;purge@A", "T(d),T(e);purge(e)@A siblings", "T(d),T(e) siblings"]]
        + [(n, 2, 0) for n in ["T,T';purge@B", "T(d),T(e);purge(e)@A", "T(d),T(e)"]]  # large: explored to the time budget
    )
    plan = ctx.pick(quick_plan, thorough_plan)
    depth = ctx.pick(60, 80)
    budget = ctx.pick(1800, 4200) / len(plan)  # quick closes in well under a minute on an idle machine; the cap is only a safety net
    for (name, f, early) in common.rotate(plan, ctx.seed):
        sc = dsworld.SCENARIOS[name]

        def expand(hist, sc=sc, f=f, early=early):
            w = dsworld.build(sc, f, hist, early)
            out = []
            en = w.enabled()
            # the fair closure is one of the fault-free continuations the BFS explores anyway: it is only needed where
            # the exploration stops -- at terminal states and at the depth bound
            if not w.viol and (not en or len(hist) >= depth - 1):
                cl = dsworld.build(sc, f, hist, early).closure()
                if cl:
                    out.append((None, None, cl))
            for ev in en:
                q = dsworld.build(sc, f, hist + [ev], early)
                out.append((ev, None if q.viol else q.canon(), list(q.viol)))
            return out

        r = bfs.bfs(expand, dsworld.build(sc, f, [], early).canon(), depth, deadline=time.time() + budget)
        tot_s += r["states"]
        tot_t += r["transitions"]
        bounds.append({"scenario": name, "fault_budget": f, "early_timer_budget": early, "depth_completed": r["depth"], "closed": r["closed"], "states": r["states"], "capped": r["capped"]})
        for (mon, cause), (m, hist) in r["violations"].items():
            ctx.add_violation(common.Violation({"monitor": mon, "cause": cause}, f"[{name}, F={f}] {m}; history={hist}", {"scenario": name, "faults": f, "early": early, "history": hist}))
        for h in r["samples"][:1]:
            ctx.sample({"scenario": name, "commands": sc["commands"], "history": h}, cap=4)
    runs, bv = dsworld.batch_pass_check()
    for (m, c, msg_, rp) in bv:
        ctx.add_violation(common.Violation({"monitor": m, "cause": c}, f"[batch pass] {msg_}", rp))
    tot_t += runs
    ctx.coverage["batch_pass_executions"] = runs
    ctx.coverage.update(states=tot_s, transitions=tot_t, traces_validated_against_impl=tot_t, bounds=bounds,
                        exhaustive=all(not b["capped"] for b in bounds), closure_reached=all(b["closed"] for b in bounds))
    ctx.assume("a purge reaches a data server only after its executor saw the dataset published on that host (executor gating), and a source is purged only once the transfer command was processed there (C04)",
               "futures complete at explorer-chosen steps; concurrent.futures.wait completes pending futures of that host in submission order",
               "drops apply to payload and confirmation frames, duplications to every frame incl. commands; shm capacity ample (no paging)")


def replay(ctx, data):
    if data.get("batch"):
        _, bv = dsworld.batch_pass_check()
        return [common.Violation({"monitor": m, "cause": c}, msg_, rp) for (m, c, msg_, rp) in bv]
    sc = dsworld.SCENARIOS[data["scenario"]]
    w = dsworld.build(sc, data["faults"], data["history"], data.get("early", 0))
    v = list(w.viol) or dsworld.build(sc, data["faults"], data["history"], data.get("early", 0)).closure()
    return [common.Violation({"monitor": m, "cause": c}, msg, data) for (m, c, msg) in v]
