"""C09 - shared-memory datasets keep their bytes, are protected in use, stay reachable.
Same state space as C08, with byte patterns really written and read through segments and page-out/page-in round trips,
protection monitors (no page-out/unlink while a reader is open, not readable before the writer closed) and a bounded
liveness closure evaluated in every reachable state."""
from vf import common, shm_family as fam

PROP = "C09"


def run(ctx):
    items = fam.explore(ctx, PROP, with_liveness=True)
    n = fam.conformance(ctx, items, ctx.pick(20, 100))
    ctx.coverage["histories_replayed_on_real_shm"] = n
    ctx.coverage["liveness"] = "in every reachable state, every request that fits after evicting idle datasets: (complete all jobs ok, retry) x (#keys+3) must end in a grant"
    ctx.assume("a disk job's body and callback run atomically at the explorer-chosen completion step",
               "staleness windows (15 min) unreachable: every reader is 'fresh'")


def replay(ctx, data):
    return fam.replay(ctx, data, PROP)
