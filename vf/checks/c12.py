"""C12 - serialising a graph and reading it back gives an equal graph.
Bounded-exhaustive over the C11 DAG family (terminal nodes with and without outputs, multi-output nodes, empty graph),
payload alphabets, and graphs built by fluent programs; three paths: dict, JSON, Cascade file (dill)."""
from __future__ import annotations

import os
import shutil
import tempfile

import numpy as np

from earthkit.workflows import Cascade, fluent
from earthkit.workflows.graph import Graph, deserialise, from_json, serialise, to_json

from vf import common
from vf.graphs import GraphSpec, dag_specs, freeze, with_double_edges

PROP = "C12"

JSON_PAYLOADS = [None, 0, "", "s", [1, "a"], {"k": [1]}]


def f_payload(x=None, *a, **k):
    return x


PY_PAYLOADS = [(f_payload, [1, "in0"], {"kw": 2}), ("tuple", 1), {"set": {1, 2}}]


def structure(g: Graph):
    """independent structural summary: name -> (outputs, inputs, payload)"""
    out = {}
    for n in g.nodes():
        if n.name in out:
            return None
        out[n.name] = (list(n.outputs), {i: (s.parent.name, s.name) for i, s in n.inputs.items()}, freeze(n.payload))
    return out


def compare(tag, path, g, back, out, rp):
    a, b = structure(g), structure(back)
    if a != b:
        lost = sorted(set(a) - set(b)) if a and b is not None else []
        cause = "nodes lost" if lost else "nodes, outputs, inputs or payloads differ"
        if lost and all(a[n][0] for n in lost):
            cause = "nodes lost (terminal nodes that declare outputs are not taken as sinks)"
        out.append(({"monitor": f"{path}_roundtrip_differs", "cause": cause}, f"{tag}: {len(a)} nodes -> {len(b) if b is not None else '?'}; lost {lost[:5]}", rp))
    elif not (g == back):
        out.append(({"monitor": f"{path}_not_equal", "cause": "Graph.__eq__ says the round-tripped graph differs"}, tag, rp))


def where_of(e):
    import traceback

    tb = traceback.extract_tb(e.__traceback__)
    inner = [f for f in tb if "/repo/src" in f.filename]
    if not inner:
        raise common.HarnessError(f"harness exception {e!r}\n{traceback.format_exc()}")
    return f"{inner[-1].filename.split('/')[-1]}:{inner[-1].name}"


def check_graph(tag, g: Graph, json_ok: bool, tmpdir: str, rp: dict):
    out = []
    for path in ("dict", "json", "file"):
        if path == "json" and not json_ok:
            continue
        try:
            if path == "dict":
                back = deserialise(serialise(g))
            elif path == "json":
                back = from_json(to_json(g))
            else:
                fn = os.path.join(tmpdir, "g.dill")
                Cascade(g).serialise(fn)
                back = Cascade.from_serialised(fn)._graph
        except Exception as e:
            out.append(({"monitor": f"{path}_raised", "cause": f"{type(e).__name__} in {where_of(e)}"}, f"{tag}: {e!r}", rp))
            continue
        compare(tag, path, g, back, out, rp)
    return out


def spec_graph(spec: GraphSpec, payload_mode: str):
    g, objs = spec.build()
    if payload_mode.startswith("json"):
        for i, n in enumerate(objs):
            n.payload = JSON_PAYLOADS[i % len(JSON_PAYLOADS)] if payload_mode == "json-mixed" else n.payload
    else:
        for i, n in enumerate(objs):
            n.payload = PY_PAYLOADS[i % len(PY_PAYLOADS)]
    return g


def src(*a, **k):
    return np.array([1.0, 2.0])


def fluent_graphs():
    out = []

    for shape, dims in [((2,), ["x"]), ((2, 3), ["x", "y"])]:
        payloads = np.empty(shape, dtype=object)
        payloads[...] = fluent.Payload(src)
        a = fluent.from_source(payloads, dims=dims)
        out.append((f"fluent source {shape}", a.graph()))
        out.append((f"fluent map {shape}", a.map(f_payload).graph()))
        out.append((f"fluent sum {shape}", a.sum("x").graph()))
        out.append((f"fluent mean batched {shape}", a.mean("x", batch_size=1).graph()))
        out.append((f"fluent yields {shape}", a.map(f_payload, yields=("k", [0, 1])).graph()))
    return out


def run_chunk(arg):
    specs_json, mode = arg
    res = []
    td = tempfile.mkdtemp(prefix="vf_c12_")
    try:
        for sj in specs_json:
            spec = GraphSpec.from_json(sj)
            g = spec_graph(spec, mode)
            res += check_graph(f"{spec.tag}/{mode}", g, mode.startswith("json"), td, {"spec": sj, "mode": mode})
    finally:
        shutil.rmtree(td, ignore_errors=True)
    return res


def run(ctx):
    maxn = ctx.pick(4, 5)
    specs = []
    for n in range(1, maxn + 1):
        specs += dag_specs(n, "unique", payloads=("alt",))
    for n in range(2, maxn + 1):  # named outputs next to the default output name "0"
        specs += dag_specs(n, "unique", payloads=("alt",), outputs=("multi",), out_names=("0", "b"))
        specs += dag_specs(n, "unique", payloads=("alt",), outputs=("multi",), out_names=("b", "0"))
    for n in range(2, maxn + 1):  # producers with exactly one output that does not carry the default name
        specs += dag_specs(n, "unique", payloads=("alt",), outputs=("single-named",), out_names=("result",))
    for n in range(2, min(maxn, 4) + 1):  # two inputs of one node wired to one upstream output
        specs += [de for de in (with_double_edges(sp) for sp in dag_specs(n, "unique", payloads=("alt",), outputs=("default", "multi"))) if de is not None]
    for n in range(2, min(maxn, 4) + 1):  # node, output and input names that contain separators of every kind
        specs += dag_specs(n, "dotted", payloads=("alt",), outputs=("multi", "default"), out_names=("o.1", "a b"), input_style="in.")
    if not ctx.quick:
        specs += dag_specs(6, "unique", payloads=("alt",), outputs=("multi", "terminal-none"))
    modes = ["json-str", "json-mixed", "python"]
    args = []
    sj = [s.describe() for s in specs]
    for m in modes:
        for i in range(16):
            if sj[i::16]:
                args.append((sj[i::16], m))
    res = common.pmap(run_chunk, common.rotate(args, ctx.seed))
    for r in res:
        for sig, msg, rp in r:
            ctx.add_violation(common.Violation(sig, msg, rp))
    # empty graph and fluent graphs
    td = tempfile.mkdtemp(prefix="vf_c12_")
    n_extra = 0
    try:
        for sig, msg, rp in check_graph("empty", Graph([]), True, td, {"special": "empty"}):
            ctx.add_violation(common.Violation(sig, msg, rp))
        n_extra += 1
        for i, (tag, g) in enumerate(fluent_graphs()):
            for sig, msg, rp in check_graph(tag, g, False, td, {"special": "fluent", "index": i}):
                ctx.add_violation(common.Violation(sig, msg, rp))
            n_extra += 1
    finally:
        shutil.rmtree(td, ignore_errors=True)
    ctx.coverage.update(
        evaluations=len(specs) * len(modes) + n_extra, distinct_nontrivial=len([s for s in specs if s.edges]) * len(modes) + n_extra - 1, exhaustive=True,
        rule="every edge set on n<=%d nodes x output patterns {default, two outputs on producers, no outputs on terminals} x payload modes {strings; JSON alphabet None/0/''/'s'/list/dict; python objects incl. (func,args,kwargs) tuples} through dict, JSON (JSON-faithful payloads only) and Cascade file round trips; plus the empty graph and 10 graphs built with the fluent API. Non-trivial = graph has an edge or comes from fluent" % maxn,
    )
    ctx.sample(specs[len(specs) // 3].describe())
    ctx.sample({"fluent": "from_source((2,3)).mean('x', batch_size=1).graph() -> Cascade.serialise/from_serialised"})
    ctx.assume("names are unique within a graph (precondition of the statement)", "temp files are written under a fresh directory in $TMPDIR and removed")


def replay(ctx, data):
    td = tempfile.mkdtemp(prefix="vf_c12_")
    try:
        if "spec" in data:
            res = run_chunk(([data["spec"]], data["mode"]))
        elif data.get("special") == "empty":
            res = check_graph("empty", Graph([]), True, td, data)
        else:
            tag, g = fluent_graphs()[data["index"]]
            res = check_graph(tag, g, False, td, data)
    finally:
        shutil.rmtree(td, ignore_errors=True)
    return [common.Violation(sig, msg, rp) for sig, msg, rp in res]
