"""C18 - the gateway attributes progress/results to the right job and keeps the newest.
Explicit-state BFS over histories of the real JobRouter + server.handle_fe + server.handle_controller (fake zmq sockets,
process spawning stubbed, uuid source scripted to attempt collisions). Reports are produced by the real Reporter and
may be delivered in any order and any number of times; every frontend query is evaluated in every state against a
reference dictionary."""
from __future__ import annotations

import base64
import collections
import types

import cascade.controller.report as report
import cascade.gateway.api as gapi
import cascade.gateway.client as gclient
import cascade.gateway.router as router
import cascade.gateway.server as server
from cascade.low.core import DatasetId

from vf import common
from vf.fakezmq import Net

PROP = "C18"

DS = [DatasetId("t", "a.x"), DatasetId("t", "b")]
# never uploaded; prints exactly like DS[0] ("t.a.x"): results are per dataset id, not per printed form
LOOKALIKE = DatasetId("t.a", "x")
# report kinds of one job: three progress reports with increasing timestamps, two results, the shutdown notice
REPORTS = ["P1", "P2", "P3", "Ra", "Rb", "Rab", "P2Ra", "S"]
TS = {"P1": 10, "P2": 20, "P3": 30, "Ra": 25, "Rb": 35, "Rab": 35, "P2Ra": 20, "S": 40}
REMAINING = {"P1": 2, "P2": 1, "P3": 0}  # of total 3


class World:
    """fresh real gateway objects + the reference model"""

    def __init__(self):
        for mod, names in ((router, ("zmq", "get_context", "_spawn_subprocess", "getfqdn", "uuid")), (gclient, ("zmq",)), (report, ("zmq", "get_context", "monotonic_ns"))):
            for n in names:
                common.seam(mod, n)
        self.net = Net(staged=True)
        net = self.net
        router.zmq = net
        router.get_context = lambda: net.Context()
        router._spawn_subprocess = lambda spec, addr, job_id: self.spawned.append((addr, job_id))
        router.getfqdn = lambda: "gw"
        ids = iter(["id-A", "id-A", "id-B", "id-A", "id-B", "id-C", "id-D", "id-E", "id-F"])  # collisions on purpose
        router.uuid = types.SimpleNamespace(uuid4=lambda: next(ids))
        gclient.zmq = net
        report.zmq = net
        report.get_context = lambda: net.Context()
        self.clock = [0]
        report.monotonic_ns = lambda: self.clock[0]
        self.spawned: list = []
        self.poller = net.Poller()
        self.jobs = router.JobRouter(self.poller)
        self.rep = types.SimpleNamespace(inbox=None, outbox=None)
        self.rep.recv = lambda: self.rep.inbox
        self.rep.send = lambda b: setattr(self.rep, "outbox", b)
        self.shutdown_seen = False

        def responder(raw: bytes) -> bytes:
            self.rep.inbox = raw
            self.shutdown_seen = server.handle_fe(self.rep, self.jobs) or self.shutdown_seen
            return self.rep.outbox

        net.responders["tcp://gw:fe"] = responder
        # reference
        self.job_ids: list[str] = []
        self.ref: list[dict] = []

    # ---- events
    def submit(self) -> list:
        spec = gapi.JobSpec(benchmark_name="b", envvars={}, job_instance=None, workers_per_host=1, hosts=1, use_slurm=False)
        resp = gclient.request_response(gapi.SubmitJobRequest(job=spec), "tcp://gw:fe")
        out = []
        if resp.error is not None or resp.job_id is None:
            out.append(("submit_failed", "gateway refused a submit", repr(resp)))
            return out
        if resp.job_id in self.job_ids:
            out.append(("job_id_reused", "a job identifier was handed out twice", f"{resp.job_id} in {self.job_ids}"))
        self.job_ids.append(resp.job_id)
        self.ref.append({"max_ts": None, "progress": report.JobProgressStarted, "results": {}, "registered": True})
        return out

    def deliver(self, j: int, kind: str) -> None:
        """the real Reporter of job j emits the report; the frame is delivered to the gateway at once"""
        addr, job_id = self.spawned[j]
        rep = report.Reporter(f"{addr},{job_id}")
        self.clock[0] = TS[kind]
        ref = self.ref[j]
        if kind == "P2Ra":  # one report carrying a progress value and a result
            ds = DS[0]
            val = b"\xfb\xff\xbe\x00" + f"{j}:{ds!r}".encode()
            rep.socket.send(report.serialize(report.ControllerReport(job_id, "{:.2%}".format(1.0 - REMAINING["P2"] / 3)[:-1], TS[kind], [(ds, val)])))
            if ref["registered"]:
                ref["results"][ds] = val
                if ref["max_ts"] is None or TS[kind] > ref["max_ts"]:
                    ref["max_ts"] = TS[kind]
                    ref["progress"] = "{:.2%}".format(1.0 - REMAINING["P2"] / 3)[:-1]
        elif kind.startswith("P"):
            st = types.SimpleNamespace(remaining=REMAINING[kind], total=3)
            rep.send_progress(st)
            if ref["registered"] and (ref["max_ts"] is None or TS[kind] > ref["max_ts"]):
                ref["max_ts"] = TS[kind]
                ref["progress"] = "{:.2%}".format(1.0 - REMAINING[kind] / 3)[:-1]
        elif kind == "Rab":  # one report carrying both results
            vals = [(ds, b"\xfb\xff\xbe\x00" + f"{j}:{ds!r}".encode()) for ds in DS]
            rep.socket.send(report.serialize(report.ControllerReport(job_id, None, TS[kind], vals)))
            if ref["registered"]:
                for ds, val in vals:
                    ref["results"][ds] = val
        elif kind.startswith("R"):
            ds = DS[0] if kind == "Ra" else DS[1]
            val = b"\xfb\xff\xbe\x00" + f"{j}:{ds!r}".encode()  # base64 of the first bytes uses '+' and '/' 
            rep.send_result(ds, val)
            if ref["registered"]:
                ref["results"][ds] = val
        else:
            rep.shutdown()
        while self.net.flight:
            self.net.deliver(0)
        sock = self.jobs.jobs[job_id].socket
        if ref["registered"]:
            if sock not in self.poller.socks:
                raise common.HarnessError("model says registered but the socket is not polled")
            server.handle_controller(sock, self.jobs)
        else:
            self.net.queues[sock.addr].clear()  # never polled again: the frame stays unread
        if kind == "S":
            ref["registered"] = False

    # ---- oracle: every query, in one fixed order, on the live object
    def check_queries(self) -> list:
        out = []
        url = "tcp://gw:fe"

        def ask(req):
            try:
                return gclient.request_response(req, url)
            except Exception as e:  # the gateway must answer every request
                out.append(("query_raised", f"{type(req).__name__}: {type(e).__name__}", f"{req!r}: {e!r}"))
                return None

        r = ask(gapi.JobProgressRequest(job_ids=["no-such-job"]))
        if r is not None and r.error is None:
            out.append(("unknown_job_no_error", "progress of an unknown job answered without error", repr(r)))
        r = ask(gapi.ResultRetrievalRequest(job_id="no-such-job", dataset_id=DS[0]))
        if r is not None and (r.error is None or r.result is not None):
            out.append(("unknown_job_no_error", "result of an unknown job answered without error", repr(r)))
        for j, jid in enumerate(self.job_ids):
            ref = self.ref[j]
            r = ask(gapi.JobProgressRequest(job_ids=[jid]))
            if r is not None and (r.error is not None or r.progresses != {jid: ref["progress"]}):
                cause = "an older report overwrote a newer one" if ref["max_ts"] is not None and r.error is None and jid in r.progresses and _older(r.progresses[jid], ref["progress"]) else "progress differs from the newest report received"
                out.append(("progress_mismatch", cause, f"job {j}: gateway {r!r} expected {ref['progress']}"))
            for ds in DS + [DatasetId("t", "zzz"), LOOKALIKE]:
                r = ask(gapi.ResultRetrievalRequest(job_id=jid, dataset_id=ds))
                if r is None:
                    continue
                if ds in ref["results"]:
                    want = base64.b64encode(ref["results"][ds]).decode()
                    if r.error is not None or r.result != want:
                        out.append(("result_mismatch", "result differs from what was uploaded for that job and dataset", f"job {j} {ds!r}: {r!r} expected {want}"))
                    r2 = ask(gapi.ResultRetrievalRequest(job_id=jid, dataset_id=ds))  # queries are read-only: asking again changes nothing
                    if r2 is not None and (r2.error is not None or r2.result != want):
                        out.append(("result_mismatch", "a repeated request for the same result is answered differently", f"job {j} {ds!r}: second answer {r2!r}"))
                else:
                    if r.error is None or r.result is not None:
                        out.append(("missing_result_no_error", "result never uploaded for that job/dataset answered without error", f"job {j} {ds!r}: {r!r}"))
        if len(self.job_ids) >= 2:
            r = ask(gapi.JobProgressRequest(job_ids=list(self.job_ids[:2])))
            if r is not None and (r.error is not None or r.progresses != {jid: self.ref[j]["progress"] for j, jid in enumerate(self.job_ids[:2])}):
                out.append(("progress_all_mismatch", "progress of two named jobs differs from the reference", f"{r!r}"))
        if self.job_ids:
            r = ask(gapi.JobProgressRequest(job_ids=[self.job_ids[0], "no-such-job"]))
            if r is not None and r.error is None:
                out.append(("unknown_job_no_error", "progress of a known and an unknown job answered without error", repr(r)))
        r = ask(gapi.JobProgressRequest(job_ids=[]))
        if r is not None and (r.error is not None or r.progresses != {jid: self.ref[j]["progress"] for j, jid in enumerate(self.job_ids)}):
            out.append(("progress_all_mismatch", "progress of all jobs differs from the reference", f"{r!r}"))
        return out

    def canon(self):
        return (
            tuple((j.progress, j.last_seen, tuple(sorted((repr(k), v) for k, v in j.results.items())), j.socket in self.poller.socks) for j in self.jobs.jobs.values()),
            tuple((r["max_ts"], r["progress"], tuple(sorted(map(repr, r["results"]))), r["registered"]) for r in self.ref),
        )


def _older(got: str, want: str) -> bool:
    try:
        return float(got) < float(want)
    except ValueError:
        return False


def build(hist) -> tuple[World, list]:
    w = World()
    viol = []
    for ev in hist:
        if ev[0] == "submit":
            viol += w.submit()
        else:
            w.deliver(ev[1], ev[2])
    return w, viol


def enabled(w: World, max_jobs: int) -> list:
    evs = []
    if len(w.job_ids) < max_jobs:
        evs.append(("submit",))
    for j in range(len(w.job_ids)):
        if w.ref[j]["registered"]:
            for k in REPORTS:
                evs.append(("deliver", j, k))
    return evs


_MAXJOBS = [2]


def expand(hist):
    """all successors of the state reached by hist: [(event, canon or None, violations)]"""
    w, _ = build(hist)
    out = []
    for ev in enabled(w, _MAXJOBS[0]):
        nh = hist + [ev]
        try:
            nw, v = build(nh)
            v = v + nw.check_queries()
            c = None if v else nw.canon()  # a state in which a monitor fired is reported, not expanded
        except common.HarnessError:
            raise
        except Exception as e:
            import traceback

            tb = traceback.extract_tb(e.__traceback__)
            if not any("/repo/src" in f.filename for f in tb):
                raise common.HarnessError(f"harness exception: {e!r}\n{traceback.format_exc()}")
            v = [("gateway_raised", f"{type(e).__name__} while handling a report", f"{e!r}")]
            c = None
        out.append((ev, c, v))
    return out


def bfs(max_jobs: int, max_depth: int):
    """level-synchronous BFS; each level's frontier is expanded on the process pool"""
    _MAXJOBS[0] = max_jobs
    w0, _ = build([])
    seen = {w0.canon(): []}
    frontier = [[]]
    transitions = 0
    viols: dict = {}
    depth = 0
    sample = None
    while frontier and depth < max_depth:
        chunks = [frontier[i::64] for i in range(64) if frontier[i::64]]
        res = common.pmap(lambda ch: [expand(h) for h in ch], chunks)
        nxt = []
        for ch, rs in zip(chunks, res):
            for hist, succ in zip(ch, rs):
                for ev, c, v in succ:
                    transitions += 1
                    nh = hist + [ev]
                    for (mon, cause, msg) in v:
                        k = (mon, cause)
                        if k not in viols or len(nh) < len(viols[k][1]):
                            viols[k] = (msg, nh)
                    if c is not None and c not in seen:
                        seen[c] = nh
                        nxt.append(nh)
                        if len(nh) == 5 and sample is None:
                            sample = nh
        frontier = nxt
        depth += 1
    closed = not frontier
    return len(seen), transitions, depth, closed, viols, sample


def run(ctx):
    max_jobs = ctx.pick(2, 3)
    max_depth = ctx.pick(16, 24)
    states, transitions, depth, closed, viols, sample = bfs(max_jobs, max_depth)
    for (mon, cause), (msg, hist) in viols.items():
        ctx.add_violation(common.Violation({"monitor": mon, "cause": cause}, f"{msg}; history={hist}", {"history": hist}))
    ctx.coverage.update(states=states, transitions=transitions, traces_validated_against_impl=transitions, max_depth=depth,
                        closure_reached=closed, exhaustive=closed, jobs=max_jobs,
                        queries_per_state="progress(one/all/unknown), result(known/unknown job, uploaded/never-uploaded/unknown dataset)")
    ctx.sample({"history": sample or [], "meaning": "('deliver', j, K): job j's real Reporter emits report K (P1<P2<P3 by timestamp, Ra/Rb results, S shutdown) and the gateway handles it"})
    ctx.assume("process spawning is stubbed (not part of the property); reports after a job's shutdown notice are not read by the gateway (its socket is unregistered) and so are not 'received'",
               "every explored transition runs the implementation, so traces_validated_against_impl = transitions",
               "state = (router jobs: progress, last_seen, results, polled) x reference; duplicates are unbounded because delivery counts are not part of the state")


def replay(ctx, data):
    hist = [tuple(e) for e in data["history"]]
    out = []
    try:
        w, v = build(hist)
        v = v + w.check_queries()
    except common.HarnessError:
        raise
    except Exception as e:
        v = [("gateway_raised", f"{type(e).__name__} while handling a report", f"{e!r}")]
    return [common.Violation({"monitor": m, "cause": c}, msg, data) for (m, c, msg) in v]
