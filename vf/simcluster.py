"""SimCluster: the reference environment behind the Bridge interface, for model checking the real controller
(DESIGN 2.4), plus the stateless explorer that enumerates every event-delivery order and batching.

What is real: cascade.controller.impl.run (+ scheduler.api/assign, controller.notify/act), and on the worker
side entrypoint.RunnerContext.project / execute_sequence / runner.run / Memory / serde. What is modelled: the
executor processes, transports and shm (a dict per host), and the order in which events reach the controller.
"""
from __future__ import annotations

import copy
import time
from typing import Any

import cascade.controller.impl as impl
import cascade.executor.runner.entrypoint as entrypoint
import cascade.executor.runner.memory as memory_mod
from cascade.executor.msg import (
    DatasetPublished,
    DatasetTransmitPayload,
    DatasetTransmitPayloadHeader,
    TaskFailure,
    TaskSequence,
)
from cascade.executor.runner.packages import PackagesEnv
from cascade.low.core import DatasetId, Environment, JobInstance, Worker, WorkerId
from cascade.low.views import param_source
from cascade.scheduler.graph import precompute

import cascade.scheduler.graph as _sgraph

from vf.common import HarnessError, InlinePool, Violation, seam

seam(_sgraph, "ThreadPoolExecutor")
_sgraph.ThreadPoolExecutor = InlinePool  # precompute's pool is only a speed-up; inline = deterministic and fork-safe
from vf.jobs import JobSpec, sequential_eval


class Stop(BaseException):
    """frontier of the explored prefix reached"""


class Pruned(BaseException):
    """state already expanded"""


class Abort(BaseException):
    """the model cannot continue after a violation (e.g. source lacks the dataset)"""


# ---------------------------------------------------------------- fake per-host shm used by the real Memory
class _Buf:
    def __init__(self, store: dict, key: str, l: int, deser_fun: str, create: bool):
        self.store, self.key, self.l, self.deser_fun, self.create = store, key, l, deser_fun, create
        self.data = bytearray(l) if create else None
        self.closed = False

    def view(self):
        if self.closed:
            raise ValueError("shm already closed!")
        if self.create:
            return memoryview(self.data)
        return memoryview(self.store[self.key][0]).toreadonly()

    def close(self):
        if self.closed:
            return
        self.closed = True
        if self.create:
            self.store[self.key] = (bytes(self.data), self.deser_fun)


class ConflictError(Exception):
    pass


class _ShmFacade:
    """stands in for the module cascade.shm.client inside memory.py; dispatches on the current host"""

    ConflictError = ConflictError

    def __init__(self):
        self.cur: dict | None = None

    def allocate(self, key, l, deser_fun, timeout_sec: float = 60.0):
        if key in self.cur:
            raise ConflictError()
        return _Buf(self.cur, key, l, deser_fun, True)

    def get(self, key, timeout_sec: float = 60.0):
        if key not in self.cur:
            raise ValueError(f"KeyError({key!r})")
        return _Buf(self.cur, key, len(self.cur[key][0]), self.cur[key][1], False)


_FACADE = _ShmFacade()
_CAPTURED: list = []


def _capture(address, msg):
    _CAPTURED.append(msg)


_installed = False
_STATE_BOX: list = [None]
_ROUND_HOOK: list = [None]


_REAL: dict = {}


def install_seams() -> None:
    """(re)install the SimCluster seams; idempotent, and safe to interleave with vcluster runs in one process"""
    global _installed
    if not _REAL:
        for mod, name in ((memory_mod, "shm_client"), (memory_mod, "callback"), (entrypoint, "callback"), (impl, "initialize"), (impl, "mark")):
            _REAL[(mod.__name__, name)] = seam(mod, name)
    memory_mod.shm_client = _FACADE
    memory_mod.callback = _capture
    entrypoint.callback = _capture
    real_init = _REAL[(impl.__name__, "initialize")]

    def init_capture(*a, **k):
        st = real_init(*a, **k)
        _STATE_BOX[0] = st
        return st

    impl.initialize = init_capture

    def mark_hook(labels):
        h = _ROUND_HOOK[0]
        if h is not None:
            h(labels)

    impl.mark = mark_hook
    _installed = True


def uninstall_seams() -> None:
    """give the modules their real attributes back (vcluster runs the real worker/controller plumbing)"""
    global _installed
    for mod in (memory_mod, entrypoint, impl):
        for (mname, name), val in _REAL.items():
            if mname == mod.__name__:
                setattr(mod, name, val)
    _installed = False


# ---------------------------------------------------------------- configuration
class Config:
    def __init__(self, spec: JobSpec, hosts: int, workers: int, gpu_workers: tuple = (), batch: int = 2):
        self.spec, self.hosts, self.workers, self.gpu_workers, self.batch = spec, hosts, workers, tuple(gpu_workers), batch
        self.job: JobInstance = spec.build()
        self.pre = precompute(self.job)
        self.expected = sequential_eval(self.job)
        self.env = Environment(
            workers={
                WorkerId(f"h{h}", f"w{w}"): Worker(cpu=1, gpu=1 if (h, w) in self.gpu_workers else 0, memory_mb=1024)
                for h in range(hosts)
                for w in range(workers)
            }
        )
        self.param_source = param_source(self.job.edges)
        self.consumers: dict[DatasetId, set[str]] = {}
        self.inputs: dict[str, set[DatasetId]] = {t: set() for t in self.job.tasks}
        for e in self.job.edges:
            self.consumers.setdefault(e.source, set()).add(e.sink_task)
            self.inputs[e.sink_task].add(e.source)
        self.requested = set(self.job.ext_outputs)

    def describe(self) -> dict:
        return {"job": self.spec.describe(), "hosts": self.hosts, "workers": self.workers,
                "gpu_workers": [list(g) for g in self.gpu_workers], "batch": self.batch}

    def label(self) -> str:
        return f"{self.spec.name}@{self.hosts}x{self.workers}" + (f"g{list(self.gpu_workers)}" if self.gpu_workers else "")


class _Ev:
    __slots__ = ("id", "origin", "msg", "preds", "delivered", "kind", "cmd")

    def __init__(self, id, origin, msg, preds, kind, cmd=None):
        self.id, self.origin, self.msg, self.preds, self.delivered, self.kind, self.cmd = id, origin, msg, preds, False, kind, cmd


class SimCluster:
    def __init__(self, cfg: Config, chooser: "Chooser"):
        self.cfg, self.ch = cfg, chooser
        self.store: dict[str, dict[str, tuple[bytes, str]]] = {f"h{h}": {} for h in range(cfg.hosts)}
        self.has: dict[str, set[DatasetId]] = {h: set() for h in self.store}
        self.memories: dict[WorkerId, Any] = {}
        self.pckg = PackagesEnv()
        self.events: list[_Ev] = []
        self.last_of_origin: dict[Any, int] = {}
        self.notice_at: dict[tuple[str, DatasetId], int] = {}
        self.violations: list[tuple[str, dict, str]] = []  # (property, signature, message)
        # monitors' bookkeeping
        self.dispatched: dict[str, WorkerId] = {}
        self.busy: dict[WorkerId, set[int]] = {}  # worker -> ids of its publication events not yet delivered
        self.produced: set[DatasetId] = set()
        self.cmds: list[dict] = []  # transmit/fetch commands {kind, ds, src, dst, idx, answered, ev}
        self.purged: set[tuple[str, DatasetId]] = set()
        self.completed: set[str] = set()  # tasks all of whose publications reached the controller
        self.task_events: dict[str, set[int]] = {}
        self.delivered_payload: set[DatasetId] = set()
        self.shutdown_calls = 0
        self.log: list = []
        self.rounds = 0
        self.round_calls = 0
        self.idle_rounds = 0
        self.recv_calls = 0
        self.failed = False

    # ------------------------------------------------------------ helpers
    def viol(self, prop: str, monitor: str, cause: str, msg: str) -> None:
        self.violations.append((prop, {"monitor": monitor, "cause": cause}, msg))

    def _emit(self, origin, msg, preds: set[int], kind: str, cmd=None) -> _Ev:
        preds = set(preds)
        if origin in self.last_of_origin:
            preds.add(self.last_of_origin[origin])
        ev = _Ev(len(self.events), origin, msg, preds, kind, cmd)
        self.events.append(ev)
        self.last_of_origin[origin] = ev.id
        return ev

    def _memory(self, worker: WorkerId):
        if worker not in self.memories:
            self.memories[worker] = memory_mod.Memory("sim", worker)
        return self.memories[worker]

    def _ds_bytes(self, host: str, ds: DatasetId):
        return self.store[host][memory_mod.ds2shmid(ds)]

    # ------------------------------------------------------------ Bridge interface
    def get_environment(self) -> Environment:
        return self.cfg.env

    def task_sequence(self, ts: TaskSequence) -> None:
        self.round_calls += 1
        cfg = self.cfg
        w = ts.worker
        self.log.append(("task_sequence", repr(w), list(ts.tasks)))
        if w not in cfg.env.workers:
            self.viol("C02", "dispatch_unknown_worker", "worker not in environment", f"{ts}")
            raise Abort()
        if self.busy.get(w):
            self.viol("C02", "dispatch_busy_worker", "worker has an accepted sequence whose outputs were not all reported",
                      f"{ts.tasks} sent to {w!r} while it is busy; log={self.log}")
        for t in ts.tasks:
            if t in self.dispatched:
                self.viol("C02", "double_dispatch", "task dispatched twice", f"{t} to {w!r}, before to {self.dispatched[t]!r}; log={self.log}")
            self.dispatched[t] = w
            if cfg.job.tasks[t].definition.needs_gpu and cfg.env.workers[w].gpu <= 0:
                self.viol("C02", "gpu_requirement", "gpu task on a worker without gpu", f"{t} on {w!r}")
            for ds in cfg.inputs[t]:
                if ds.task in ts.tasks:
                    continue
                if ds not in self.produced:
                    self.viol("C02", "input_not_produced", "task dispatched before an input was produced", f"{t} needs {ds!r}; log={self.log}")
                    raise Abort()
                if ds not in self.has[w.host]:
                    self.viol("C02", "input_not_on_host", "input neither on the target host nor in transfer to it",
                              f"{t} on {w!r} needs {ds!r}; stores={ {h: sorted(map(repr, s)) for h, s in self.has.items()} }; log={self.log}")
                    raise Abort()
        # eager, causal execution through the real worker code
        _FACADE.cur = self.store[w.host]
        del _CAPTURED[:]
        rc = entrypoint.RunnerContext(workerId=w, job=cfg.job, callback="sim", param_source=cfg.param_source)
        mem = self._memory(w)
        # the real worker loop calls memory.provide for announced inputs before executing; provide is idempotent
        entrypoint.execute_sequence(ts, mem, self.pckg, rc)
        msgs = list(_CAPTURED)
        del _CAPTURED[:]
        ids = set()
        for m in msgs:
            if isinstance(m, DatasetPublished):
                preds = set()
                t = m.ds.task
                for ds in cfg.inputs[t]:
                    n = self.notice_at.get((w.host, ds))
                    if n is not None:
                        preds.add(n)
                ev = self._emit(w, m, preds, "published")
                self.notice_at.setdefault((w.host, m.ds), ev.id)
                self.has[w.host].add(m.ds)
                self.produced.add(m.ds)
                ids.add(ev.id)
                self.task_events.setdefault(t, set()).add(ev.id)
            elif isinstance(m, TaskFailure):
                self.failed = True
                self.viol("C01", "task_failed_in_worker", "real runner raised on a well-formed job", f"{m}")
                raise Abort()
            else:
                raise HarnessError(f"unexpected worker message {m}")
        self.busy[w] = ids

    def transmit(self, ds: DatasetId, source: str, target: str) -> None:
        self.round_calls += 1
        self.log.append(("transmit", repr(ds), source, target))
        idx = len(self.cmds)
        cmd = {"kind": "transmit", "ds": ds, "src": source, "dst": target, "idx": idx, "answered": False}
        self.cmds.append(cmd)
        if source not in self.has or ds not in self.has[source]:
            self.viol("C04", "transmit_source_lacks_dataset",
                      "purged earlier" if (source, ds) in self.purged else "never stored there",
                      f"transmit {ds!r} {source}->{target}; log={self.log}")
            raise Abort()
        if ds in self.has[target]:
            # redundant transfer: the target's data server stays silent on the store conflict, so nothing ever tells the
            # controller when the source has served it -- the command stays unanswered for the rest of the run
            cmd["redundant"] = True
            return
        self.store[target][memory_mod.ds2shmid(ds)] = self._ds_bytes(source, ds)
        self.has[target].add(ds)
        preds = set()
        n = self.notice_at.get((source, ds))
        ev = self._emit(target, DatasetPublished(origin=target, ds=ds, transmit_idx=idx), preds, "arrived", cmd)
        self.notice_at.setdefault((target, ds), ev.id)
        cmd["ev"] = ev.id

    def fetch(self, ds: DatasetId, source: str) -> None:
        self.round_calls += 1
        self.log.append(("fetch", repr(ds), source))
        idx = len(self.cmds)
        cmd = {"kind": "fetch", "ds": ds, "src": source, "dst": "controller", "idx": idx, "answered": False,
               "nth": sum(1 for c in self.cmds if c["kind"] == "fetch" and c["ds"] == ds)}
        self.cmds.append(cmd)
        if source not in self.has or ds not in self.has[source]:
            self.viol("C04", "fetch_source_lacks_dataset",
                      "purged earlier" if (source, ds) in self.purged else "never stored there",
                      f"fetch {ds!r} from {source}; log={self.log}")
            raise Abort()
        value, deser_fun = self._ds_bytes(source, ds)
        hdr = DatasetTransmitPayloadHeader(confirm_address="sim", confirm_idx=idx, ds=ds, deser_fun=deser_fun)
        ev = self._emit(("fetch", idx), DatasetTransmitPayload(header=hdr, value=value), set(), "payload", cmd)
        cmd["ev"] = ev.id

    def purge(self, host: str, ds: DatasetId) -> None:
        self.round_calls += 1
        self.log.append(("purge", host, repr(ds)))
        cfg = self.cfg
        pending = [t for t in cfg.consumers.get(ds, ()) if t not in self.completed]
        if pending:
            self.viol("C04", "purge_before_consumers_done", "a consumer task has not completed", f"purge {ds!r}@{host}, consumers pending {sorted(pending)}; log={self.log}")
        if ds in cfg.requested and ds not in self.delivered_payload:
            self.viol("C04", "purge_requested_before_delivery", "requested output not yet delivered to the caller", f"purge {ds!r}@{host}; log={self.log}")
        for c in self.cmds:
            if c["ds"] == ds and c["src"] == host and not c["answered"]:
                if c["kind"] == "fetch":
                    cause = "second fetch of the same dataset" if c["nth"] >= 1 else "first fetch of the dataset"
                    self.viol("C04", "purge_with_unanswered_fetch", cause, f"purge {ds!r}@{host} while fetch #{c['idx']} unanswered; log={self.log}")
                else:
                    self.viol("C04", "purge_with_unanswered_transmit", "redundant transfer (target already had the dataset or a transfer in flight): never answered" if c.get("redundant") else "transfer from that host not yet reported", f"purge {ds!r}@{host} while transmit #{c['idx']} to {c['dst']} unanswered; log={self.log}")
        if host not in self.has:
            self.viol("C04", "purge_unknown_host", "host not in cluster", f"{host}")
            raise Abort()
        if ds in self.has[host]:
            self.has[host].discard(ds)
            self.store[host].pop(memory_mod.ds2shmid(ds), None)
            for w, mem in self.memories.items():
                if w.host == host:
                    mem.pop(ds)
        self.purged.add((host, ds))

    def shutdown(self) -> None:
        self.shutdown_calls += 1

    # ------------------------------------------------------------ event delivery
    def deliverable(self) -> list[_Ev]:
        evs = self.events
        return [e for e in evs if not e.delivered and all(evs[p].delivered for p in e.preds)]

    def _deliver(self, ev: _Ev) -> None:
        ev.delivered = True
        if ev.kind == "published":
            w = ev.origin
            self.busy[w].discard(ev.id)
            t = ev.msg.ds.task
            if all(self.events[i].delivered for i in self.task_events[t]):
                self.completed.add(t)
        elif ev.kind == "arrived":
            ev.cmd["answered"] = True
        elif ev.kind == "payload":
            ev.cmd["answered"] = True
            self.delivered_payload.add(ev.msg.header.ds)

    def state_key(self) -> Any:
        st = _STATE_BOX[0]
        ck = controller_key(st)
        mk = (
            tuple(e.delivered for e in self.events),
            tuple((c["kind"], c["ds"], c["src"], c["dst"], c["answered"]) for c in self.cmds),
            tuple(sorted((h, tuple(sorted(map(repr, s)))) for h, s in self.has.items())),
            tuple(sorted(self.dispatched.items(), key=repr)),
            tuple(sorted(map(repr, self.purged))),
            tuple(repr(e.msg)[:80] for e in self.events),
        )
        return (ck, mk)

    def recv_events(self) -> list:
        self.recv_calls += 1
        self.round_calls += 1
        dl = self.deliverable()
        if not dl:
            self.viol("C03", "wait_with_nothing_outstanding", "controller waits for events but the cluster has none to deliver",
                      f"log={self.log}")
            raise Abort()
        self.ch.at_state(self)
        batch = []
        c = self.ch.choose(len(dl), "first")
        ev = dl[c]
        self._deliver(ev)
        batch.append(ev)
        while len(batch) < self.cfg.batch:
            dl = self.deliverable()
            if not dl:
                break
            c = self.ch.choose(1 + len(dl), "more")
            if c == 0:
                break
            ev = dl[c - 1]
            self._deliver(ev)
            batch.append(ev)
        self.log.append(("events", [_ev_label(e) for e in batch]))
        self.ch.transitions += 1
        return [e.msg for e in batch]


def _ev_label(e: _Ev) -> str:
    m = e.msg
    if isinstance(m, DatasetPublished):
        return f"published({m.ds!r}@{m.origin!r}{'' if m.transmit_idx is None else ',tx' + str(m.transmit_idx)})"
    return f"payload({m.header.ds!r},#{m.header.confirm_idx})"


def controller_key(st) -> Any:
    """Property-relevant controller state with container *iteration order* preserved (the scheduler's choices
    depend on dict/set order, so sorting could merge states with different futures)."""
    if st is None:
        return None

    def d2(d):
        return tuple((repr(k), tuple((repr(a), int(b)) for a, b in v.items())) for k, v in d.items())

    comps = tuple(
        (
            c.weight,
            tuple(c.computable.items()),
            tuple((t, tuple(map(repr, s))) for t, s in c.is_computable_tracker.items()),
            tuple((repr(w), tuple(dd.items())) for w, dd in c.worker2task_distance.items()),
            tuple(c.worker2task_values),
        )
        for c in st.components
    )
    return (
        d2(st.worker2ds), d2(st.host2ds), d2(st.ds2host), d2(st.worker2ts),
        comps,
        tuple(st.host2component.items()),
        st.computable, st.remaining,
        tuple((repr(w), tuple(dd.items())) for w, dd in st.worker2task_overhead.items()),
        tuple(map(repr, st.idle_workers)),
        tuple((repr(w), tuple(s)) for w, s in st.ongoing.items()),
        st.ongoing_total,
        tuple((repr(k), tuple(v)) for k, v in st.purging_tracker.items()),
        tuple(map(repr, st.purging_queue)),
        tuple((repr(k), v is None) for k, v in st.outputs.items()),
        tuple((repr(k), v) for k, v in st.fetching_queue.items()),
    )


# ---------------------------------------------------------------- explorer
class Chooser:
    def __init__(self, prefix: list[int], seen: set | None):
        self.prefix, self.pos, self.seen = prefix, 0, seen
        self.frontier_n: int | None = None
        self.transitions = 0
        self.new_state = False

    def at_state(self, sim: SimCluster) -> None:
        if self.pos == len(self.prefix) and self.seen is not None:
            k = sim.state_key()
            if k in self.seen:
                raise Pruned()
            self.seen.add(k)
            self.new_state = True

    def choose(self, n: int, kind: str) -> int:
        if self.pos < len(self.prefix):
            c = self.prefix[self.pos]
            if c >= n:
                raise HarnessError(f"replay divergence: choice {c} of {n} at position {self.pos} ({kind})")
            self.pos += 1
            return c
        self.frontier_n = n
        raise Stop()


class Execution:
    """One run of the real controller against a fresh SimCluster along a choice prefix."""

    def __init__(self, cfg: Config, prefix: list[int], seen: set | None):
        self.cfg, self.prefix = cfg, prefix
        self.ch = Chooser(prefix, seen)
        self.sim = SimCluster(cfg, self.ch)
        self.status = "?"
        self.outcome: Any = None
        self.exc: BaseException | None = None

    def run(self) -> "Execution":
        install_seams()
        sim = self.sim
        _STATE_BOX[0] = None

        def round_hook(labels):
            a = labels.get("action")
            if a == impl.ControllerPhases.assign:
                if sim.rounds > 0 and sim.round_calls == 0:
                    sim.idle_rounds += 1
                    sim.viol("C03", "idle_round", "a controller round neither issued a command nor waited", f"round {sim.rounds}; log={sim.log}")
                    if sim.idle_rounds > 3:
                        raise Abort()
                sim.rounds += 1
                sim.round_calls = 0

        _ROUND_HOOK[0] = round_hook
        try:
            # a fresh copy per execution: the controller must not be able to alias state between executions
            state = impl.run(self.cfg.job, sim, copy.deepcopy(self.cfg.pre))
            self.status = "returned"
            self._end_checks(state)
        except Stop:
            self.status = "frontier"
        except Pruned:
            self.status = "pruned"
        except Abort:
            self.status = "aborted"
        except HarnessError:
            raise
        except Exception as e:  # the controller's own code raised
            import traceback

            self.status = "raised"
            self.exc = e
            tb = traceback.extract_tb(e.__traceback__)
            inner = [f for f in tb if "/repo/src" in f.filename]
            where = f"{inner[-1].filename.split('/repo/src/')[-1]}:{inner[-1].name}" if inner else "harness"
            if not inner:
                raise HarnessError(f"exception from harness code: {e!r}\n{traceback.format_exc()}")
            if any("/verif/" in f.filename for f in tb[len(tb) - 1:]):
                raise HarnessError(f"exception raised inside harness: {e!r}\n{traceback.format_exc()}")
            msg = f"{type(e).__name__}: {str(e)[:200]} at {where}; log={sim.log}"
            sim.viol("C03", "controller_raised", f"{type(e).__name__} in {where}", msg)
            sim.viol("C01", "run_raised", f"{type(e).__name__} in {where}", msg)
        finally:
            _ROUND_HOOK[0] = None
            for m in sim.memories.values():
                try:
                    m.__exit__(None, None, None)
                except Exception:
                    pass
        return self

    def _end_checks(self, state) -> None:
        sim, cfg = self.sim, self.cfg
        # C01
        got = dict(state.outputs)
        if set(got) != cfg.requested:
            sim.viol("C01", "output_keys", "returned output keys differ from the requested set", f"{sorted(map(repr, got))} vs {sorted(map(repr, cfg.requested))}")
        bad = []
        for ds in cfg.requested:
            if ds not in got or type(got[ds]).__name__ == "_NotFetched" or (got[ds] is None and cfg.expected[ds] is not None):
                bad.append((repr(ds), "missing"))  # never fetched (a value that is legitimately None is not "missing")
            elif got[ds] != cfg.expected[ds]:
                bad.append((repr(ds), repr(got[ds])[:200], "expected", repr(cfg.expected[ds])[:200]))
        if bad:
            sim.viol("C01", "wrong_or_missing_value", "missing" if all(b[1] == "missing" for b in bad) else "value differs from sequential evaluation", f"{bad}; log={sim.log}")
        self.outcome = tuple(sorted((repr(k), repr(v)) for k, v in got.items()))
        # C02
        missing = [t for t in cfg.job.tasks if t not in sim.dispatched]
        if missing:
            sim.viol("C02", "task_never_dispatched", "run returned with a task never dispatched", f"{missing}; log={sim.log}")
        # C03
        if state.remaining != 0:
            sim.viol("C03", "returned_with_remaining", "run returned with tasks remaining", f"remaining={state.remaining}")
        if sim.shutdown_calls != 1:
            sim.viol("C03", "shutdown_calls", f"shutdown called {sim.shutdown_calls} times", "")
        undelivered = [e for e in sim.events if not e.delivered and e.kind == "published"]
        if undelivered:
            sim.viol("C03", "returned_before_completion", "run returned while task completions were still unreported", f"{[_ev_label(e) for e in undelivered]}; log={sim.log}")
        bound = 4 * (len(sim.events) + len(sim.log)) + 8
        if sim.rounds > bound:
            sim.viol("C03", "too_many_rounds", "rounds exceed the events+commands bound", f"{sim.rounds} > {bound}")


def explore(cfg: Config, max_exec: int = 0, prune: bool = True, deadline: float = 0.0, keep_traces: int = 0) -> dict:
    """DFS over all choice sequences of one configuration. Returns stats and violations."""
    seen: set | None = set() if prune else None
    stack: list[list[int]] = [[]]
    stats = {"executions": 0, "states": 0, "transitions": 0, "terminal": 0, "pruned": 0, "aborted": 0,
             "max_depth": 0, "capped": False}
    outcomes: set = set()
    viols: dict[str, tuple[str, dict, str, list[int]]] = {}
    sample = None
    cmd_shapes: set = set()
    traces: list = []
    while stack:
        if (max_exec and stats["executions"] >= max_exec) or (deadline and time.time() > deadline):
            stats["capped"] = True
            break
        prefix = stack.pop()
        ex = Execution(cfg, prefix, seen).run()
        stats["executions"] += 1
        stats["max_depth"] = max(stats["max_depth"], len(prefix))
        if ex.status == "frontier":
            n = ex.ch.frontier_n
            for c in reversed(range(n)):
                stack.append(prefix + [c])
            stats["transitions"] += n
        elif ex.status == "pruned":
            stats["pruned"] += 1
        elif ex.status in ("returned", "raised"):
            stats["terminal"] += 1
            if ex.status == "returned":  # a raising run is reported by its own monitor, not as schedule dependence
                outcomes.add(ex.outcome)
            shape = tuple(l[0] for l in ex.sim.log)
            if shape not in cmd_shapes and ex.status == "returned" and len(traces) < keep_traces and not ex.sim.violations:
                traces.append(list(prefix))
            cmd_shapes.add(shape)
            if sample is None and ex.status == "returned":
                sample = {"config": cfg.label(), "choices": list(prefix), "trace": ex.sim.log}
        elif ex.status == "aborted":
            stats["aborted"] += 1
        if ex.ch.new_state:
            stats["states"] += 1
        for (prop, sig, msg) in ex.sim.violations:
            k = prop + "|" + repr(sorted(sig.items()))
            if k not in viols or len(prefix) < len(viols[k][3]):
                viols[k] = (prop, sig, msg, list(prefix))
    stats["outcomes"] = len(outcomes)
    stats["cmd_shapes"] = len(cmd_shapes)
    if not prune:
        stats["states"] = stats["executions"]
    return {"stats": stats, "violations": list(viols.values()), "sample": sample, "label": cfg.label(),
            "outcome_set": sorted(map(repr, outcomes)), "traces": traces}


def replay_one(cfg: Config, choices: list[int]) -> Execution:
    """Replay a recorded choice list; beyond it the default (oldest event, batch of one) is taken to the end."""

    class Default(Chooser):
        def choose(self, n, kind):
            if self.pos < len(self.prefix):
                return super().choose(n, kind)
            return 0

    ex = Execution(cfg, choices, None)
    ex.ch = Default(choices, None)
    ex.sim.ch = ex.ch
    return ex.run()


def to_violations(cfg: Config, res: dict, prop: str) -> list[Violation]:
    out = []
    for (p, sig, msg, prefix) in res["violations"]:
        if p != prop:
            continue
        out.append(Violation(sig, f"[{cfg.label()}] {msg}", {"config": cfg.describe(), "choices": prefix}))
    return out


def config_from_json(d: dict) -> Config:
    j = d["job"]
    tasks = {}
    for t, td in j["tasks"].items():
        td = dict(td)
        if "ps" in td:
            td["ps"] = {int(k): v for k, v in td["ps"].items()}
        tasks[t] = td
    spec = JobSpec(j["name"], tasks, [tuple(e) for e in j["edges"]], [tuple(x.split(".", 1)) for x in j["ext"]])
    return Config(spec, d["hosts"], d["workers"], tuple(tuple(g) for g in d.get("gpu_workers", [])), d.get("batch", 2))
