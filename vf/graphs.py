"""Graph families and the symbolic interpreter for the earthkit.workflows.graph checks (C10-C12, C14).

A GraphSpec is plain data; `build()` makes fresh Node objects every time (several transformations mutate their input).
The interpreter gives each (node, output) a *term* over payloads with names excluded:
    node_term(n)   = ("N", payload, tuple(outputs), frozenset((input name, out_term(source))))
    out_term(o)    = ("O", node_term(o.parent), o.name)
so two sinks denote the same computation iff their terms are equal."""
from __future__ import annotations

import itertools
from typing import Any

from earthkit.workflows.graph import Graph, Node, Output

from vf.jobs import all_dags


class Malformed(Exception):
    """an input of a node is not an Output of a Node (e.g. a (subgraph, output) tuple)"""


def freeze(x: Any) -> Any:
    if isinstance(x, dict):
        return ("D", tuple(sorted((freeze(k), freeze(v)) for k, v in x.items())))
    if isinstance(x, (list, tuple)):
        return ("L" if isinstance(x, list) else "T", tuple(freeze(e) for e in x))
    if isinstance(x, set):
        return ("S", tuple(sorted(map(freeze, x), key=repr)))
    try:
        hash(x)
        return x
    except TypeError:
        return ("R", repr(x))


class Interp:
    def __init__(self, unfold=None):
        self.memo: dict[int, Any] = {}
        self.unfold = unfold  # optional: payload-aware evaluation (fused nodes)

    def out_term(self, o: Any) -> Any:
        if not isinstance(o, Output) or not isinstance(o.parent, Node):
            raise Malformed(f"input is {type(o).__name__}: {o!r}"[:200])
        if o.name not in o.parent.outputs:
            raise Malformed(f"input refers to output {o.name!r} which {o.parent.name!r} does not declare ({o.parent.outputs})")
        return self.node_value(o.parent, o.name)

    def node_value(self, n: Node, oname: str | None) -> Any:
        key = (id(n), oname)
        if key in self.memo:
            return self.memo[key]
        ins = {iname: self.out_term(src) for iname, src in n.inputs.items()}
        if self.unfold is not None:
            t = self.unfold(n.payload, oname, ins)
        else:
            t = ("V", freeze(n.payload), oname, frozenset(ins.items()))
        self.memo[key] = t
        return t

    def sink_terms(self, n: Node) -> Any:
        """what a terminal node computes: one value per declared output (or the node itself if it has none)"""
        if not isinstance(n, Node):
            raise Malformed(f"sink is {type(n).__name__}")
        outs = n.outputs if n.outputs else [None]
        return tuple(self.node_value(n, o) for o in outs)


def all_nodes(g: Graph) -> list[Node]:
    return list(g.nodes())


# ---------------------------------------------------------------- specs
def materialise(payload: Any) -> Any:
    """specs stay plain data; the marker 'ARRAY:k' stands for a (callable name, [numpy array], {}) payload whose array is
    a fresh object with the same contents every time"""
    if isinstance(payload, str) and payload.startswith("ARRAY:"):
        import numpy as np

        return ("f", [np.arange(3.0) + int(payload[6:])], {})
    return payload


class GraphSpec:
    """nodes: list of dicts {name, payload, outputs (None=default | list)}; edges: (src idx, src output, dst idx, input name)"""

    def __init__(self, nodes: list[dict], edges: list[tuple], tag: str = "", sinks: str | None = None):
        # sinks: None = exactly the nodes nobody consumes; "overlap" = what `g1 + g2` gives when g2 extends g1: the sink
        # list also names interior nodes (before their descendants) and one sink twice
        self.nodes, self.edges, self.tag, self.sinks_mode = nodes, edges, tag, sinks

    def build(self) -> tuple[Graph, list[Node]]:
        objs: list[Node] = []
        for i, nd in enumerate(self.nodes):
            ins = {}
            for (s, so, d, iname) in self.edges:
                if d == i:
                    ins[iname] = objs[s].get_output(so) if so is not None else objs[s].get_output()
            objs.append(Node(nd["name"], nd["outputs"], materialise(nd["payload"]), **ins))
        consumed = {s for (s, _, _, _) in self.edges}
        sinks = [o for i, o in enumerate(objs) if i not in consumed]
        if self.sinks_mode == "overlap":
            sinks = [o for i, o in enumerate(objs) if i in consumed] + sinks + sinks[:1]
        return Graph(sinks), objs

    def describe(self) -> dict:
        d = {"tag": self.tag, "nodes": self.nodes, "edges": [list(e) for e in self.edges]}
        if self.sinks_mode:
            d["sinks"] = self.sinks_mode
        return d

    @staticmethod
    def from_json(d: dict) -> "GraphSpec":
        return GraphSpec([dict(n) for n in d["nodes"]], [tuple(e) for e in d["edges"]], d.get("tag", ""), d.get("sinks"))


PAYLOAD_PATTERNS = {
    "all-p": lambda i, depth: "p",
    "alt": lambda i, depth: "pq"[i % 2],
    "by-depth": lambda i, depth: "pq"[depth % 2],
    "arrays": lambda i, depth: f"ARRAY:{depth % 2}",   # equal arrays in distinct objects at equal depth
}
OUTPUT_PATTERNS = ("default", "multi", "terminal-none")


def with_swapped_twins(spec: "GraphSpec") -> "GraphSpec | None":
    """for every node with >= 2 inputs add a twin: same payload and outputs, same parents, input bindings rotated --
    a different computation that must survive de-duplication and every other transformation"""
    nodes = [dict(n) for n in spec.nodes]
    edges = list(spec.edges)
    added = False
    for i in range(len(spec.nodes)):
        ins = [e for e in spec.edges if e[2] == i]
        if len(ins) < 2:
            continue
        twin = len(nodes)
        nodes.append({"name": f"{spec.nodes[i]['name']}_twin", "payload": spec.nodes[i]["payload"], "outputs": spec.nodes[i]["outputs"]})
        names = [e[3] for e in ins]
        for k, (s_, so, _, _) in enumerate(ins):
            edges.append((s_, so, twin, names[(k + 1) % len(names)]))
        added = True
    return GraphSpec(nodes, edges, spec.tag + ":twins") if added else None
def with_double_edges(spec: "GraphSpec") -> "GraphSpec | None":
    """every consumer reads the output of its first producer a second time under another input name (what
    `a.multiply(a)` builds): two inputs of one node wired to one upstream output"""
    edges = list(spec.edges)
    seen = set()
    for (s_, so, d, iname) in spec.edges:
        if d not in seen:
            seen.add(d)
            edges.append((s_, so, d, "again"))
    return GraphSpec(spec.nodes, edges, spec.tag + ":double-edges", spec.sinks_mode) if seen else None


NAMESETS = {
    "unique": lambda i: f"n{i}",
    "dotted": lambda i: ["a.b", "a", "a.b.c", ".a", "0", "n 1", "a/b", "ü"][i % 8],   # unique, full of separators
    "colliding": lambda i: ["main", "m", "ma", "a", "main.a", "x.y", "in", "n"][i % 8],
}


def dag_specs(n: int, names: str = "unique", payloads=tuple(PAYLOAD_PATTERNS), outputs=OUTPUT_PATTERNS, out_names=("a", "b"), input_style: str = "in") -> list[GraphSpec]:
    specs = []
    for es in all_dags(n):
        depth = {i: 0 for i in range(n)}
        for (i, j) in es:
            depth[j] = max(depth[j], depth[i] + 1)
        has_child = {i for (i, _) in es}
        for pp in payloads:
            for op in outputs:
                nodes = []
                for i in range(n):
                    if op == "single-named" and i in has_child:
                        outs = [out_names[0]]  # one output, but not the default name
                    elif op == "multi" and i in has_child:
                        outs = list(out_names)
                    elif op == "terminal-none" and i not in has_child:
                        outs = []
                    else:
                        outs = None
                    nodes.append({"name": NAMESETS[names](i), "payload": PAYLOAD_PATTERNS[pp](i, depth[i]), "outputs": outs})
                edges = []
                cnt = {j: 0 for j in range(n)}
                for k, (i, j) in enumerate(es):
                    so = None if nodes[i]["outputs"] is None else nodes[i]["outputs"][k % len(nodes[i]["outputs"])]
                    iname = f"{input_style}{cnt[j]}"
                    cnt[j] += 1
                    edges.append((i, so, j, iname))
                specs.append(GraphSpec(nodes, edges, f"n{n}:{es}:{pp}:{op}:{names}"))
    return specs
