"""Job families for the cascade checks: term-constructor callables, JobInstance builders, DAG enumeration
and the sequential reference interpreter.

A task callable never computes anything: it returns the *term* ``(name, args, sorted kwargs)`` so that equality
of two values is equality of the whole expression tree. Any mis-bound argument, swapped output or stale value
changes the result.
"""
from __future__ import annotations

import functools
import itertools
from typing import Any, Iterable

from cascade.low.core import (
    DatasetId,
    JobInstance,
    Task2TaskEdge,
    TaskDefinition,
    TaskInstance,
)


def term(name: str, *args: Any, **kwargs: Any) -> tuple:
    return (name, tuple(args), tuple(sorted(kwargs.items())))


def gen_term(name: str, k: int, *args: Any, **kwargs: Any):
    for i in range(k):
        yield (name, i, tuple(args), tuple(sorted(kwargs.items())))


def none_term(name: str, *args: Any, **kwargs: Any) -> None:
    """a task whose value is None (what every Python function without a return statement gives)"""
    return None


@functools.lru_cache(maxsize=None)
def _enc(name: str, k: int, none: bool = False) -> str:
    if none:
        return TaskDefinition.func_enc(functools.partial(none_term, name))
    if k == 1:
        return TaskDefinition.func_enc(functools.partial(term, name))
    return TaskDefinition.func_enc(functools.partial(gen_term, name, k))


class JobSpec:
    """Plain description of a job; hashable/printable, turned into a JobInstance by ``build``.

    tasks: {name: {"outs": [output names], "ps": {pos: static}, "kw": {name: static}, "gpu": bool}}
    edges: [(src_task, src_output, dst_task, dst_param)]  dst_param int => positional, str => keyword
    """

    def __init__(self, name: str, tasks: dict[str, dict], edges: list[tuple], ext: list[tuple[str, str]]):
        self.name, self.tasks, self.edges, self.ext = name, tasks, edges, ext

    def describe(self) -> dict:
        return {
            "name": self.name,
            "tasks": {t: {k: v for k, v in d.items() if v} for t, d in self.tasks.items()},
            "edges": [list(e) for e in self.edges],
            "ext": [f"{t}.{o}" for t, o in self.ext],
        }

    def build(self) -> JobInstance:
        tasks = {}
        for t, d in self.tasks.items():
            outs = d.get("outs") or ["0"]
            kwparams = {k: "Any" for k in d.get("kw", {})}
            for (s, so, dt, dp) in self.edges:
                if dt == t and isinstance(dp, str):
                    kwparams[dp] = "Any"
            tasks[t] = TaskInstance(
                definition=TaskDefinition(
                    func=_enc(t, len(outs), bool(d.get("none"))),
                    entrypoint="",
                    environment=[],
                    input_schema=kwparams,
                    output_schema={o: "Any" for o in outs},
                    needs_gpu=bool(d.get("gpu", False)),
                ),
                static_input_kw=dict(d.get("kw", {})),
                static_input_ps={str(k): v for k, v in d.get("ps", {}).items()},
            )
        edges = [
            Task2TaskEdge(
                source=DatasetId(s, so),
                sink_task=dt,
                sink_input_kw=dp if isinstance(dp, str) else None,
                sink_input_ps=dp if isinstance(dp, int) else None,
            )
            for (s, so, dt, dp) in self.edges
        ]
        return JobInstance(tasks=tasks, edges=edges, ext_outputs=[DatasetId(t, o) for t, o in self.ext])


def simple_job(name: str, ntasks: int, edges: Iterable[tuple[int, int]], ext: Iterable[tuple[int, str]] | str = "sinks",
               outs: dict[int, list[str]] | None = None, src_out: dict[tuple[int, int], str] | None = None,
               gpu: Iterable[int] = (), kw_edges: Iterable[tuple[int, int]] = ()) -> JobSpec:
    """Tasks t0..t{n-1}; edge (i, j) feeds output of ti to the next free positional slot of tj (or a keyword
    parameter if listed in kw_edges). Every task also gets a distinct positional static and a keyword static."""
    outs = outs or {}
    src_out = src_out or {}
    tasks: dict[str, dict] = {}
    nextpos = {j: (1 if j % 2 == 0 else 0) for j in range(ntasks)}  # even tasks: static first, odd: static last
    es = []
    kw_edges = set(kw_edges)
    for (i, j) in edges:
        so = src_out.get((i, j), (outs.get(i) or ["0"])[0])
        if (i, j) in kw_edges:
            es.append((f"t{i}", so, f"t{j}", f"k{i}"))
        else:
            es.append((f"t{i}", so, f"t{j}", nextpos[j]))
            nextpos[j] += 1
    for i in range(ntasks):
        tasks[f"t{i}"] = {
            "outs": outs.get(i, ["0"]),
            "ps": {(0 if i % 2 == 0 else nextpos[i]): f"s{i}"},
            "kw": {"c": i},
            "gpu": i in set(gpu),
        }
    consumed = {(f"t{i}", so) for (s, so, _, _) in es for i in [int(s[1:])]}
    all_ds = [(t, o) for t, d in tasks.items() for o in d["outs"]]
    if ext == "sinks":
        ext_l = [d for d in all_ds if d not in consumed]
    elif ext == "all":
        ext_l = all_ds
    elif ext == "none":
        ext_l = []
    else:
        ext_l = [(f"t{i}", o) for i, o in ext]  # type: ignore[union-attr]
    return JobSpec(name, tasks, es, ext_l)


def sequential_eval(job: JobInstance) -> dict[DatasetId, Any]:
    """Reference semantics of a JobInstance, written independently of runner.run:
    positional statics at their index, keyword statics by name, each edge overrides its slot with the upstream
    value; a task with one output stores the call result, with k outputs the i-th produced value goes to the
    i-th output in key-sorted order (the contract stated on TaskDefinition.output_schema)."""
    inputs: dict[str, list[Task2TaskEdge]] = {}
    for e in job.edges:
        inputs.setdefault(e.sink_task, []).append(e)
    done: dict[DatasetId, Any] = {}
    pending = list(job.tasks.keys())
    while pending:
        progressed = False
        for t in list(pending):
            es = inputs.get(t, [])
            if any(e.source not in done for e in es):
                continue
            inst = job.tasks[t]
            slots: dict[int, Any] = {int(k): v for k, v in inst.static_input_ps.items()}
            kwargs = dict(inst.static_input_kw)
            for e in es:
                if e.sink_input_kw is not None:
                    kwargs[e.sink_input_kw] = done[e.source]
                else:
                    slots[e.sink_input_ps] = done[e.source]
            n = (max(slots) + 1) if slots else 0
            args = [slots.get(i) for i in range(n)]
            f = TaskDefinition.func_dec(inst.definition.func)
            res = f(*args, **kwargs)
            outs = sorted(inst.definition.output_schema)
            if len(outs) == 1:
                done[DatasetId(t, outs[0])] = res
            else:
                vals = list(res)
                assert len(vals) == len(outs)
                for o, v in zip(outs, vals):
                    done[DatasetId(t, o)] = v
            pending.remove(t)
            progressed = True
        if not progressed:
            raise ValueError("cycle or dangling edge in job")
    return done


def all_dags(n: int) -> list[list[tuple[int, int]]]:
    """All edge sets over nodes 0..n-1 with edges i<j (a fixed topological labelling)."""
    pairs = [(i, j) for i in range(n) for j in range(i + 1, n)]
    out = []
    for mask in range(1 << len(pairs)):
        out.append([p for b, p in enumerate(pairs) if mask >> b & 1])
    return out


def canonical_dags(n: int) -> list[list[tuple[int, int]]]:
    """One representative per isomorphism class (brute force over relabelings that keep i<j); n <= 5."""
    seen = set()
    reps = []
    for es in all_dags(n):
        best = None
        for perm in itertools.permutations(range(n)):
            mapped = sorted((perm[i], perm[j]) for i, j in es)
            if all(a < b for a, b in mapped):
                key = tuple(mapped)
                if best is None or key < best:
                    best = key
        if best not in seen:
            seen.add(best)
            reps.append(list(best))
    return reps
