"""Shared plumbing of the verification framework: repo binding, evidence, violations, known findings.

Every check is a module ``vf.checks.cXX`` exposing ``run(ctx)`` and (optionally) ``replay(ctx, data)``.
``ctx`` is a :class:`Ctx`: it collects violations (deduplicated by *signature*), matches them against
``/verif/known_findings.json`` (read-only at run time), re-executes each new violation twice through the
check's ``replay`` before printing it, and writes ``/verif/evidence/<id>.json``.

Exit codes: 0 held / only known findings, 1 unlisted violation, 2 harness error (never a verdict).
"""
from __future__ import annotations

import hashlib
import json
import logging
import multiprocessing
import os
import sys
import time
import traceback
from typing import Any, Callable, Iterable

VERIF = os.path.dirname(os.path.dirname(os.path.abspath(__file__)))
# the repository under test; VF_REPO_SRC lets tools/run_all_seeds.sh point the checks at a scratch copy (its path must
# still contain "/repo/src": traceback filters look for that)
REPO_SRC = os.environ.get("VF_REPO_SRC", "/repo/src")
EVIDENCE_SCHEMA = "/root/.vp/EVIDENCE.schema.json"


class HarnessError(Exception):
    """The machinery itself is broken (missing seam, replay divergence, watchdog): exit 2."""


def bind_repo() -> None:
    """Make sure the repo's own packages are the ones imported, and silence its logging."""
    if sys.path[0] != REPO_SRC:
        if REPO_SRC in sys.path:
            sys.path.remove(REPO_SRC)
        sys.path.insert(0, REPO_SRC)
    logging.disable(logging.CRITICAL)
    import cascade  # noqa
    import earthkit.workflows  # noqa

    for mod in (cascade, earthkit.workflows):
        f = getattr(mod, "__file__", None) or list(getattr(mod, "__path__"))[0]
        if not os.path.abspath(f).startswith(REPO_SRC):
            raise HarnessError(f"{mod.__name__} imported from {f}, not from {REPO_SRC}")


def seam(module: Any, name: str) -> Any:
    """Fetch a module attribute that a harness is about to replace; a missing seam is a harness error."""
    if not hasattr(module, name):
        raise HarnessError(f"seam {module.__name__}.{name} not found (code was refactored?)")
    return getattr(module, name)


def jsonable(x: Any) -> Any:
    if isinstance(x, (str, int, float, bool)) or x is None:
        return x
    if isinstance(x, (list, tuple)):
        return [jsonable(e) for e in x]
    if isinstance(x, (set, frozenset)):
        return sorted((jsonable(e) for e in x), key=repr)
    if isinstance(x, dict):
        return {str(k): jsonable(v) for k, v in x.items()}
    if isinstance(x, bytes):
        return x.hex() if len(x) <= 32 else f"<{len(x)} bytes {hashlib.md5(x).hexdigest()[:8]}>"
    return repr(x)


def sha(x: Any) -> str:
    return hashlib.sha256(json.dumps(jsonable(x), sort_keys=True).encode()).hexdigest()[:16]


class Violation:
    def __init__(self, signature: dict, message: str, replay: dict):
        self.signature = signature  # {"monitor": ..., "cause": ...} -- no run-varying data
        self.message = message
        self.replay = replay  # whatever the check's replay() needs

    def to_json(self) -> dict:
        return {"signature": self.signature, "message": self.message, "replay": jsonable(self.replay)}

    @staticmethod
    def from_json(d: dict) -> "Violation":
        return Violation(d["signature"], d["message"], d["replay"])


def sig_key(sig: dict) -> str:
    return json.dumps(sig, sort_keys=True)


class Ctx:
    def __init__(self, pid: str, tier: str, seed: int, level: str):
        self.pid, self.tier, self.seed, self.level = pid, tier, seed, level
        self.t0 = time.time()
        self.violations: dict[str, Violation] = {}
        self.violation_counts: dict[str, int] = {}
        self.coverage: dict[str, Any] = {}
        self.assumptions: list[str] = []
        self.samples: list[Any] = []
        self.notes: list[str] = []
        self.budget_s = float(os.environ.get("VERIF_BUDGET_S", "0") or 0)

    # ---- tier helpers
    @property
    def quick(self) -> bool:
        return self.tier == "quick"

    def pick(self, quick: Any, thorough: Any) -> Any:
        return quick if self.quick else thorough

    def elapsed(self) -> float:
        return time.time() - self.t0

    # ---- collecting
    def add_violation(self, v: Violation) -> None:
        k = sig_key(v.signature)
        self.violation_counts[k] = self.violation_counts.get(k, 0) + 1
        old = self.violations.get(k)
        # keep the smallest replay per signature (shortest counterexample is the easiest to explain)
        if old is None or len(json.dumps(jsonable(v.replay))) < len(json.dumps(jsonable(old.replay))):
            self.violations[k] = v

    def add_violations(self, vs: Iterable[Violation]) -> None:
        for v in vs:
            self.add_violation(v)

    def sample(self, s: Any, cap: int = 5) -> None:
        if len(self.samples) < cap:
            self.samples.append(jsonable(s))

    def count(self, key: str, n: int = 1) -> None:
        self.coverage[key] = self.coverage.get(key, 0) + n

    def assume(self, *texts: str) -> None:
        for t in texts:
            if t not in self.assumptions:
                self.assumptions.append(t)


def load_known() -> list[dict]:
    p = os.path.join(VERIF, "known_findings.json")
    if not os.path.exists(p):
        return []
    with open(p) as f:
        return json.load(f).get("entries", [])


def _write_replay(pid: str, v: Violation) -> str:
    d = os.path.join(VERIF, "replays", pid)
    os.makedirs(d, exist_ok=True)
    path = os.path.join(d, sha(v.signature) + ".json")
    with open(path, "w") as f:
        json.dump({"check": pid, **v.to_json()}, f, indent=1, sort_keys=True)
    return path


def finish(ctx: Ctx, replay_fn: Callable[[Ctx, dict], list[Violation]] | None) -> int:
    """Match violations against known findings, confirm new ones by double replay, write artefacts."""
    known = [e for e in load_known() if e.get("property") == ctx.pid and e.get("status") == "known"]
    known_by_sig = {sig_key(e["signature"]): e for e in known}
    exit_code = 0
    new_count = 0
    known_hit = 0
    lines: list[str] = []
    for k, v in sorted(ctx.violations.items()):
        if k in known_by_sig:
            known_hit += 1
            lines.append(f"KNOWN-FINDING: property={ctx.pid} {known_by_sig[k]['what']}")
            _write_replay(ctx.pid, v)  # kept up to date so that the listed finding stays replayable
            continue
        # deterministic replay twice before believing it
        if replay_fn is not None:
            try:
                obs = []
                for _ in range(2):
                    got = replay_fn(ctx, json.loads(json.dumps(jsonable(v.replay))))
                    obs.append(sorted(sig_key(g.signature) for g in got))
                if obs[0] != obs[1]:
                    raise HarnessError(f"replay of {v.signature} is not deterministic: {obs}")
                if k not in obs[0]:
                    raise HarnessError(f"replay of {v.signature} does not reproduce it (got {obs[0]})")
            except HarnessError:
                raise
            except Exception as e:  # the replay function itself crashed
                raise HarnessError(f"replay of {v.signature} crashed: {e!r}\n{traceback.format_exc()}")
        path = _write_replay(ctx.pid, v)
        lines.append(f"VIOLATION property={ctx.pid} replay={path}")
        lines.append(f"  signature={json.dumps(v.signature, sort_keys=True)}")
        lines.append(f"  {v.message[:600]}")
        new_count += 1
        exit_code = 1
    cov = dict(ctx.coverage)
    cov.setdefault("samples", ctx.samples if ctx.samples else [])
    if not cov["samples"] and ctx.violations:
        # every explored behaviour violated early (nothing long enough to sample): the violating inputs are the samples
        cov["samples"] = [{"violating": json.loads(json.dumps(v.replay, default=repr))} for v in list(ctx.violations.values())[:3]]
    if not cov["samples"]:
        raise HarnessError("check produced no samples")
    ev = {
        "property_id": ctx.pid,
        "tier": ctx.tier,
        "seed": ctx.seed,
        "level": ctx.level,
        "coverage": jsonable(cov),
        "assumptions": ctx.assumptions,
        "wall_s": round(time.time() - ctx.t0, 2),
        "violations": new_count,
        "known_findings_matched": known_hit,
        "violation_signatures": [json.loads(k) for k in sorted(ctx.violations)],
        "notes": ctx.notes,
    }
    try:
        import jsonschema

        with open(EVIDENCE_SCHEMA) as f:
            jsonschema.validate(ev, json.load(f))
    except FileNotFoundError:
        pass
    except Exception as e:
        raise HarnessError(f"evidence does not validate: {e}")
    os.makedirs(os.path.join(VERIF, "evidence"), exist_ok=True)
    with open(os.path.join(VERIF, "evidence", f"{ctx.pid}.json"), "w") as f:
        json.dump(ev, f, indent=1, sort_keys=True)
    for ln in lines:
        print(ln)
    brief = {k: v for k, v in cov.items() if isinstance(v, (int, float, bool, str)) and k != "rule"}
    print(f"[{ctx.pid} {ctx.tier}] wall={ev['wall_s']}s violations={new_count} known={known_hit} coverage={brief}")
    return exit_code


# ---------------------------------------------------------------- process pool
_WORKER_FN: Callable | None = None


def _call(arg):
    try:
        return ("ok", _WORKER_FN(arg))  # type: ignore[misc]
    except HarnessError as e:
        return ("harness", f"{e}\n{traceback.format_exc()}")
    except BaseException as e:  # noqa
        return ("harness", f"worker crashed on {arg!r}: {e!r}\n{traceback.format_exc()}")


def pmap(fn: Callable, items: list, procs: int | None = None, chunksize: int = 1) -> list:
    """Run fn over items on a fork pool (fn and items are inherited, results must pickle).
    Order of results = order of items. Any worker exception is a harness error."""
    global _WORKER_FN
    procs = procs or int(os.environ.get("VERIF_PROCS", "0") or 0) or min(16, os.cpu_count() or 1)
    _WORKER_FN = fn
    if procs <= 1 or len(items) <= 1:
        res = [_call(i) for i in items]
    else:
        ctx = multiprocessing.get_context("fork")
        with ctx.Pool(min(procs, len(items))) as pool:
            res = pool.map(_call, items, chunksize=chunksize)
    out = []
    for tag, val in res:
        if tag != "ok":
            raise HarnessError(val)
        out.append(val)
    return out


class CaseTimeout(BaseException):
    """a single enumerated case exceeded its time allowance (treated as a hang of the code under test)"""


def with_timeout(fn: Callable, arg: Any, seconds: float) -> Any:
    """Run fn(arg) in the main thread of this process under a SIGALRM watchdog; raises CaseTimeout."""
    import signal

    def handler(signum, frame):
        raise CaseTimeout()

    old = signal.signal(signal.SIGALRM, handler)
    signal.setitimer(signal.ITIMER_REAL, seconds)
    try:
        return fn(arg)
    finally:
        signal.setitimer(signal.ITIMER_REAL, 0)
        signal.signal(signal.SIGALRM, old)


class InlinePool:
    """Drop-in for concurrent.futures.ThreadPoolExecutor that runs everything synchronously in the caller
    (used where the library only uses a pool for speed, so that a hang is interruptible and runs are deterministic)."""

    def __init__(self, *a, **k):
        pass

    def __enter__(self):
        return self

    def __exit__(self, *a):
        return False

    def map(self, f, *its):
        return [f(*args) for args in zip(*its)]

    def submit(self, fn, *a, **k):
        from concurrent.futures import Future

        fut: Future = Future()
        try:
            fut.set_result(fn(*a, **k))
        except Exception as e:  # noqa
            fut.set_exception(e)
        return fut

    def shutdown(self, *a, **k):
        pass


def rotate(items: list, seed: int) -> list:
    """VERIF_SEED only rotates enumeration order; verdicts never depend on it."""
    if not items:
        return items
    k = seed % len(items)
    return items[k:] + items[:k]
