"""C02, worker-side clause: 'a worker never starts the task before all of those datasets have actually arrived on its
host', including orders in which the task command overtakes the publication notice of one of its inputs.

The real worker loop (`runner.entrypoint.entrypoint`) and a real shm server run as virtual processes on vcluster; a
scripted executor stores each input in host shm at the moment it sends that input's notice and sends the TaskSequence at
every possible position among the k notices (all (k+1)! orders), with an unrelated notice and a DatasetPurge of an
already consumed dataset inserted at every position, followed by a second sequence and by a third one that
consumes the first input again. The task must run exactly once,
after all notices, with the right arguments; no TaskFailure."""
from __future__ import annotations

import functools
import itertools

import cloudpickle

import cascade.executor.comms as comms
import cascade.executor.msg as msg
import cascade.executor.runner.entrypoint as entrypoint_mod
import cascade.shm.api as shm_api
import cascade.shm.client as shm_client
import cascade.shm.server as shm_server
from cascade.executor.runner.memory import ds2shmid
from cascade.low.core import DatasetId, JobInstance, Task2TaskEdge, TaskDefinition, TaskInstance, WorkerId
from cascade.low.views import param_source

from vf import vcluster
from vf.jobs import term


def make_job(k: int) -> JobInstance:
    def task(name, nin):
        return TaskInstance(definition=TaskDefinition(func=TaskDefinition.func_enc(functools.partial(term, name)), entrypoint="", environment=[],
                                                      input_schema={}, output_schema={"0": "Any"}), static_input_kw={}, static_input_ps={str(nin): f"s-{name}"})

    tasks = {f"p{i}": task(f"p{i}", 0) for i in range(k)}
    tasks["old"] = task("old", 0)
    tasks["other"] = task("other", 0)
    tasks["T"] = task("T", k)
    tasks["T2"] = task("T2", 2)
    tasks["T3"] = task("T3", 1)  # a later task on the same worker that consumes p0 again
    edges = [Task2TaskEdge(source=DatasetId(f"p{i}", "0"), sink_task="T", sink_input_kw=None, sink_input_ps=i) for i in range(k)]
    edges += [Task2TaskEdge(source=DatasetId("T", "0"), sink_task="T2", sink_input_kw=None, sink_input_ps=0),
              Task2TaskEdge(source=DatasetId("old", "0"), sink_task="T2", sink_input_kw=None, sink_input_ps=1),
              Task2TaskEdge(source=DatasetId("p0", "0"), sink_task="T3", sink_input_kw=None, sink_input_ps=0)]
    return JobInstance(tasks=tasks, edges=edges)


def scenarios(kmax: int):
    for k in range(1, kmax + 1):
        items = ["TS"] + [f"N{i}" for i in range(k)]
        for order in itertools.permutations(items):
            yield k, list(order), None
            for pos in range(len(order) + 1):
                for extra in ("Nother", "Purge-old"):
                    o = list(order)
                    o.insert(pos, extra)
                    yield k, o, extra


def run_scenario(k: int, order: list) -> list:
    """returns violations [(monitor, cause, message)]"""
    cl = vcluster.Cluster()
    S = cl.sched
    job = make_job(k)
    w = WorkerId("h0", "w0")
    out: list = []
    value = lambda name: (name, (f"s-{name}",), ())  # noqa: E731
    got: dict = {"msgs": []}

    def script():
        port = 777
        shm_api.publish_client_port(port)
        srv = S.spawn("shm", shm_server.entrypoint, (port, None, None, "wc"), kind="shm")
        srv.start()
        shm_client.ensure()
        listener = comms.Listener("tcp://exec:1")
        rc = entrypoint_mod.RunnerContext(workerId=w, job=job, callback="tcp://exec:1", param_source=param_source(job.edges))
        wp = S.spawn("worker", entrypoint_mod.entrypoint, kwargs={"runnerContext": rc}, kind="worker")
        wp.start()
        ready = []
        while not ready:
            ready = [m for m in listener.recv_messages(1000) if isinstance(m, msg.WorkerReady)]

        def store(ds, val):
            b = cloudpickle.dumps(val)
            buf = shm_client.allocate(ds2shmid(ds), len(b), "cloudpickle.loads")
            buf.view()[: len(b)] = b
            buf.close()

        def notice(ds):
            comms.callback(entrypoint_mod.worker_address(w), msg.DatasetPublished(origin=WorkerId("h0", "w9"), ds=ds, transmit_idx=None))

        def drain(ms=50):
            new = listener.recv_messages(ms)
            got["msgs"] += new
            for m in new:  # the executor broadcasts every publication to all workers of the host, the origin included
                if isinstance(m, msg.DatasetPublished):
                    comms.callback(entrypoint_mod.worker_address(w), m)

        # an already consumed dataset the worker knows about (announced before anything else)
        old = DatasetId("old", "0")
        store(old, value("old"))
        notice(old)
        drain()
        sent_notices = set()
        for item in order:
            if item == "TS":
                comms.callback(entrypoint_mod.worker_address(w), msg.TaskSequence(worker=w, tasks=["T"], publish={DatasetId("T", "0")}))
            elif item == "Nother":
                ds = DatasetId("other", "0")
                store(ds, value("other"))
                notice(ds)
            elif item == "Purge-old":
                comms.callback(entrypoint_mod.worker_address(w), msg.DatasetPurge(ds=old))
            else:
                i = int(item[1:])
                ds = DatasetId(f"p{i}", "0")
                store(ds, value(f"p{i}"))
                notice(ds)
                sent_notices.add(i)
            drain()
            pubs = [m for m in got["msgs"] if isinstance(m, msg.DatasetPublished) and m.ds.task == "T"]
            if pubs and (len(sent_notices) < k or "TS" not in order[: order.index(item) + 1]):
                out.append(("task_started_early", "worker ran the task before all input notices (or the command) had arrived", f"order {order} after {item}"))
        drain(500)
        # second sequence: consumes T's output and the old dataset (re-announced, as the executor would after a purge is impossible: only if not purged)
        if "Purge-old" not in order:
            comms.callback(entrypoint_mod.worker_address(w), msg.TaskSequence(worker=w, tasks=["T2"], publish={DatasetId("T2", "0")}))
            drain(500)
        # third sequence: consumes p0 again -- the worker must still know that p0 is there, whichever way its notice
        # reached it (before the command, or while the command was already waiting for it)
        comms.callback(entrypoint_mod.worker_address(w), msg.TaskSequence(worker=w, tasks=["T3"], publish={DatasetId("T3", "0")}))
        drain(500)
        comms.callback(entrypoint_mod.worker_address(w), msg.WorkerShutdown())
        wp.join()
        # results
        fails = [m for m in got["msgs"] if isinstance(m, msg.TaskFailure)]
        if fails:
            out.append(("task_failure_in_worker", "worker reported TaskFailure for a task whose inputs were all announced eventually", f"order {order}: {fails[0].detail[:200]}"))
        pubs = [m for m in got["msgs"] if isinstance(m, msg.DatasetPublished) and m.ds == DatasetId("T", "0")]
        if len(pubs) != 1 and not fails:
            out.append(("task_run_count", f"task output announced {len(pubs)} times", f"order {order}"))
        if pubs:
            buf = shm_client.get(ds2shmid(DatasetId("T", "0")))
            val = cloudpickle.loads(buf.view())
            buf.close()
            want = ("T", tuple(value(f"p{i}") for i in range(k)) + ("s-T",), ())
            if val != want:
                out.append(("task_wrong_arguments", "task ran with arguments other than its inputs in their positions", f"order {order}: {val} vs {want}"))
        if "Purge-old" not in order and not fails:
            p2 = [m for m in got["msgs"] if isinstance(m, msg.DatasetPublished) and m.ds == DatasetId("T2", "0")]
            if len(p2) != 1:
                out.append(("second_sequence", f"second sequence's output announced {len(p2)} times", f"order {order}"))
        if not fails:
            p3 = [m for m in got["msgs"] if isinstance(m, msg.DatasetPublished) and m.ds == DatasetId("T3", "0")]
            if len(p3) != 1:
                out.append(("later_sequence", f"a later sequence consuming an input of the first again: output announced {len(p3)} times", f"order {order}"))
        shm_client.shutdown()
        srv.join()

    sp = S.spawn("script", script, kind="controller")
    sp.start()
    end = S.run(lambda: sp.dead, 100_000, S.now_ns + int(120e9))
    if end != "done":
        out.append(("worker_hangs", "worker (or shm server) did not finish the scripted exchange within 120 virtual seconds", f"order {order}: {end}"))
    if sp.exc is not None:
        import traceback

        tb = "".join(traceback.format_exception(sp.exc))
        S.shutdown()
        from vf.common import HarnessError

        raise HarnessError(f"worker-clause script crashed on {order}: {sp.exc!r}\n{tb[-800:]}")
    S.shutdown()
    return out
