"""Explicit-state BFS over operation histories (DESIGN 2.2).

A state is the history that reaches it: `expand(hist)` rebuilds fresh real objects, replays the history through the
real methods and returns, for every enabled event, (event, canonical key of the successor or None, violations).
Level-synchronous; each level's frontier is expanded on the process pool. Keys must be hashable and picklable."""
from __future__ import annotations

import time
from typing import Any, Callable

from vf import common


def bfs(expand: Callable[[list], list], init_key: Any, max_depth: int, max_states: int = 0, deadline: float = 0.0, init_hist: list | None = None) -> dict:
    import multiprocessing
    import os

    global _EXPAND
    _EXPAND = expand
    procs = int(os.environ.get("VERIF_PROCS", "0") or 0) or min(16, os.cpu_count() or 1)
    pool = multiprocessing.get_context("fork").Pool(procs) if procs > 1 else None  # one pool for the whole search
    try:
        return _bfs(pool, expand, init_key, max_depth, max_states, deadline, list(init_hist or []))
    finally:
        if pool is not None:
            pool.terminate()
            pool.join()


_EXPAND = None


def _expand_chunk(ch):
    import traceback

    try:
        return ("ok", [_EXPAND(h) for h in ch])
    except common.HarnessError as e:
        return ("harness", f"{e}\n{traceback.format_exc()}")
    except BaseException as e:  # noqa
        return ("harness", f"worker crashed: {e!r}\n{traceback.format_exc()}")


def _bfs(pool, expand, init_key, max_depth, max_states, deadline, init_hist) -> dict:
    seen = {init_key: init_hist}
    frontier: list[list] = [init_hist]
    transitions = 0
    viols: dict = {}
    depth = 0
    capped = False
    samples: list = []
    while frontier and depth < max_depth:
        if (max_states and len(seen) >= max_states) or (deadline and time.time() > deadline):
            capped = True
            break
        # a level is expanded in slices so that the deadline is honoured inside a large level too; a level cut short
        # counts as not completed (capped), what it found is still reported
        chunks, res = [], []
        SLICE = 8192
        for lo in range(0, len(frontier), SLICE):
            part = frontier[lo:lo + SLICE]
            nchunks = min(256, max(1, len(part) // 4))
            pchunks = [part[i::nchunks] for i in range(nchunks) if part[i::nchunks]]
            if pool is None or len(part) < 4:
                raw = [_expand_chunk(ch) for ch in pchunks]
            else:
                raw = pool.map(_expand_chunk, pchunks, chunksize=1)
            for tag, val in raw:
                if tag != "ok":
                    raise common.HarnessError(val)
                res.append(val)
            chunks += pchunks
            if deadline and time.time() > deadline and lo + SLICE < len(frontier):
                capped = True
                break
        nxt = []
        for ch, rs in zip(chunks, res):
            for hist, succ in zip(ch, rs):
                for ev, c, v in succ:
                    if ev is None:  # violations of the source state itself (e.g. bounded liveness)
                        nh = hist
                    else:
                        transitions += 1
                        nh = hist + [ev]
                    for (mon, cause, msg) in v:
                        k = (mon, cause)
                        if k not in viols or len(nh) < len(viols[k][1]):
                            viols[k] = (msg, nh)
                    if c is not None and c not in seen:
                        seen[c] = nh
                        nxt.append(nh)
                        if len(samples) < 3 and len(nh) in (4, 6, 8) and all(len(s) != len(nh) for s in samples):
                            samples.append(nh)
        frontier = nxt
        if capped:
            break
        depth += 1
    return {"states": len(seen), "transitions": transitions, "depth": depth, "closed": (not frontier) and not capped,
            "capped": capped, "violations": viols, "samples": samples, "frontier_left": len(frontier),
            "all_histories": list(seen.values())}
