"""Shared driver of C08/C09: BFS over the ShmWorld alphabet, liveness closure, real-shm conformance pass."""
from __future__ import annotations

import time

from vf import bfs, common, shmworld

SIZES = {"a": 2, "b": 2, "c": 3}

# histories that reach states no bounded search from the empty store reaches (the events are the ShmWorld alphabet)
_OUT_IN = [("alloc", "a"), ("wclose", "a"), ("alloc", "c"), ("done", 0, "ok"), ("get", "a"), ("done", 0, "ok"), ("get", "a"), ("rclose", "a", 0)]
PREFIXES = {  # for capacity 4 (a=2, b=2, c=3)
    "a went to disk and came back": _OUT_IN,
    "a went to disk, came back, was purged and rewritten": _OUT_IN + [("purge", "a"), ("alloc", "a"), ("wclose", "a")],
    "a on disk, c resident": [("alloc", "a"), ("wclose", "a"), ("alloc", "c"), ("done", 0, "ok"), ("alloc", "c"), ("wclose", "c")],
}


BIG = {"a": 9000, "b": 4096, "c": 5000}  # three chunks / exactly one / two chunks of the 4096-byte page-in loop


def space(ctx):
    """(capacity, depth bound, sizes, options). Options: split = the I/O of a disk job and the delivery of its result
    are separate events, so requests also interleave with a job whose segment/file work is done but whose callback has
    not run yet; eager = once per history the jobs launched by the next request run to completion (callback
    included) before that request returns, as a fast disk thread does; purge_mid = a purge of the key may be handled
    between a page-out job's attach and its unlink; trim = the store is configured with more than the machine offers
    and has to trim itself to the capacity; rewrite = a key purged while being written may be allocated again (by another
    client) before the first writer closes; stale_writers = the 16-minute jump may also happen while a writer is open (the store then treats the
    unfinished dataset as abandoned and may page it out)."""
    quick = [(4, 8, SIZES, {}), (5, 7, SIZES, {}), (13500, 6, BIG, {}), (4, 7, SIZES, {"split": True}), (4, 7, SIZES, {"stale_writers": True}),
             (4, 7, SIZES, {"eager": True}), (4, 7, SIZES, {"purge_mid": True, "trim": True}), (4, 6, SIZES, {"rewrite": True})]
    thorough = [(4, 13, SIZES, {}), (5, 12, SIZES, {}), (13500, 10, BIG, {}), (4, 11, SIZES, {"split": True}), (5, 10, SIZES, {"split": True}),
                (4, 11, SIZES, {"stale_writers": True}), (4, 9, SIZES, {"stale_writers": True, "split": True}), (4, 11, SIZES, {"eager": True}), (5, 10, SIZES, {"eager": True}), (4, 11, SIZES, {"purge_mid": True, "trim": True}), (4, 10, SIZES, {"rewrite": True})]
    return ctx.pick(quick, thorough)


def explore(ctx, prop: str, with_liveness: bool):
    shmworld.files_base()  # before any fork
    tot = {"states": 0, "transitions": 0}
    depths, closed_all, samples = [], True, []
    t_budget = ctx.pick(1200, 2400)
    histories_for_conformance: list = []
    for (cap, depth, sizes, opt) in space(ctx):
        cfg = {"capacity": cap, "sizes": sizes, "age": with_liveness}  # C09 also lets readers grow older than the staleness window
        if opt.get("split"):
            cfg["split"] = True
        if opt.get("stale_writers"):
            cfg["age"] = "writers"
        if opt.get("eager"):
            cfg["eager"] = True
        for o in ("purge_mid", "trim", "rewrite"):
            if opt.get(o):
                cfg[o] = True  # C09 also lets readers grow older than the staleness window

        def expand(hist, cfg=cfg):
            w = shmworld.build(cfg, hist)
            out = []
            if with_liveness:
                lv = shmworld.liveness_violations(cfg, hist)
                if lv:
                    out.append((None, None, lv))
            for ev in w.enabled():
                nw = shmworld.build(cfg, hist + [ev])
                out.append((ev, None if nw.viol else nw.canon(), list(nw.viol)))
            return out

        r = _bfs(expand, shmworld.build(cfg, []).canon(), depth, time.time() + t_budget / len(space(ctx)))
        # start from non-initial states too: scripted prefixes that reach states beyond the depth bound (datasets that
        # went to disk and came back, were purged, leaving files behind), then the same exhaustive exploration from there
        for pname, prefix in (PREFIXES.items() if cap in (4, 13500) and not opt else ()):
            # a scripted prefix is a history like any other: a monitor that fires on it is a violation; a prefix whose
            # events are not enabled on this tree (eviction chose differently) is skipped and recorded as such
            w0, upto = None, 0
            try:
                w0 = shmworld.build(cfg, [])
                for upto, ev in enumerate(prefix):
                    if tuple(ev) not in w0.enabled():
                        raise LookupError(f"{ev} not enabled")
                    w0.apply(tuple(ev))
                    if w0.viol:
                        break
            except Exception as e:
                depths.append({"capacity": cap, "prefix": pname, "skipped": f"not replayable on this tree at step {upto}: {e!r}"[:200]})
                continue
            if w0.viol:
                for (mon, cause, msg) in w0.viol:
                    if prop in shmworld.MON_PROP.get(mon, ()):
                        h = [tuple(e) for e in prefix[: upto + 1]]
                        ctx.add_violation(common.Violation({"monitor": mon, "cause": cause}, f"[capacity {cap}, scripted history {pname}] {msg[:300]}; history={h}", {"cfg": cfg, "history": h}))
                continue
            r2 = bfs.bfs(expand, w0.canon(), ctx.pick(5, 7), deadline=time.time() + t_budget, init_hist=[tuple(e) for e in prefix])
            tot["states"] += r2["states"]
            tot["transitions"] += r2["transitions"]
            depths.append({"capacity": cap, "prefix": pname, "depth_completed": r2["depth"], "closed": r2["closed"], "states": r2["states"], "capped": r2["capped"]})
            for (mon, cause), (msg, hist) in r2["violations"].items():
                if prop in shmworld.MON_PROP.get(mon, ()):
                    ctx.add_violation(common.Violation({"monitor": mon, "cause": cause}, f"[capacity {cap}, from {pname}] {msg}; history={hist}", {"cfg": cfg, "history": hist}))
        tot["states"] += r["states"]
        tot["transitions"] += r["transitions"]
        depths.append({"capacity": cap, "options": sorted(opt), "depth_completed": r["depth"], "closed": r["closed"], "states": r["states"], "capped": r["capped"]})
        closed_all = closed_all and r["closed"]
        for (mon, cause), (msg, hist) in r["violations"].items():
            if prop in shmworld.MON_PROP.get(mon, ()):
                ctx.add_violation(common.Violation({"monitor": mon, "cause": cause}, f"[capacity {cap}{' ' + '+'.join(sorted(opt)) if opt else ''}] {msg}; history={hist}", {"cfg": cfg, "history": hist}))
        samples += [{"capacity": cap, "history": h} for h in r["samples"][:2]]
        histories_for_conformance += [(cfg, h) for h in r["all_histories"]]
    ctx.coverage.update(states=tot["states"], transitions=tot["transitions"], traces_validated_against_impl=tot["transitions"],
                        bounds=depths, closure_reached=closed_all, exhaustive=not any(d["capped"] for d in depths),
                        alphabet="alloc/wclose/get/rclose/purge over keys a(2) b(2) c(3) bytes, <=2 readers per key, disk job completion ok|fail-early|fail-late")
    for s in samples[:4]:
        ctx.sample(s)
    return histories_for_conformance


def _bfs(expand, init, depth, deadline):
    """bfs.bfs plus: source-state violations (event None) and the list of all state histories"""
    r = bfs.bfs(_wrap(expand), init, depth, deadline=deadline)
    return r


def _wrap(expand):
    return expand


def conformance(ctx, items: list, n: int) -> int:
    """Replay n histories (completions all 'ok') on the real multiprocessing.shared_memory + real threaded Disk and
    compare every answer, the free space reported over the protocol and the dataset statuses with the virtual world."""
    # only what real threads and real shared memory can be made to do on cue: plain completions, no injected faults, no
    # armed (eager) completions, no purge inside a job, no trimmed capacity
    ok_items = [(cfg, h) for cfg, h in items if all(ev[0] != "done" or ev[2] == "ok" for ev in h) and len(h) >= 3
                and not any(ev[0] in ("arm", "cb") for ev in h) and not cfg.get("trim") and not cfg.get("eager")]
    ok_items.sort(key=lambda x: (-sum(1 for ev in x[1] if ev[0] == "done"), -len(x[1]), repr(x[1])))
    with_jobs = [x for x in ok_items if any(ev[0] == "done" for ev in x[1])]
    rest = [x for x in ok_items if not any(ev[0] == "done" for ev in x[1])]
    pick = common.rotate(with_jobs, ctx.seed)[: (2 * n) // 3]
    pick += common.rotate(rest, ctx.seed)[: n - len(pick)]
    _quiet_resource_tracker()
    done = 0
    for cfg, hist in pick:
        v = shmworld.build(cfg, hist)
        r = shmworld.build(cfg, [], real=True)
        try:
            for ev in hist:
                r.apply(tuple(ev))
            if [t[:4] for t in r.trace] != [t[:4] for t in v.trace]:
                diff = next(i for i, (a, b) in enumerate(zip(r.trace, v.trace)) if a != b)
                raise common.HarnessError(f"virtual shm world disagrees with real shm at step {diff}: real {r.trace[diff]} virtual {v.trace[diff]} history {hist}")
            for k, bufs in r.readers.items():
                for b in bufs:
                    if bytes(b.view()) != r.pattern(k):
                        ctx.add_violation(common.Violation({"monitor": "bytes_mismatch", "cause": "real shm: bytes read differ from the bytes written"}, f"{hist}", {"cfg": cfg, "history": hist, "real": True}))
        finally:
            r.teardown()
        done += 1
    return done


def _quiet_resource_tracker() -> None:
    """Start Python's shared-memory resource tracker with stderr on /dev/null: the library unregisters segments
    itself (client.is_unregister), which makes the tracker print harmless KeyError tracebacks."""
    import multiprocessing.resource_tracker as rt
    import os

    saved = os.dup(2)
    dn = os.open(os.devnull, os.O_WRONLY)
    try:
        os.dup2(dn, 2)
        rt.ensure_running()
    finally:
        os.dup2(saved, 2)
        os.close(dn)
        os.close(saved)


def replay(ctx, data, prop):
    cfg, hist = data["cfg"], [tuple(e) for e in data["history"]]
    w = shmworld.build(cfg, hist[:-1]) if hist else shmworld.build(cfg, [])
    out = []
    viol = []
    try:
        if hist:
            w.apply(hist[-1])
        viol = list(w.viol)
    except Exception as e:
        raise common.HarnessError(f"replay crashed: {e!r}")
    if not viol:
        viol = shmworld.liveness_violations(cfg, hist)
    for (mon, cause, msg) in viol:
        if prop in shmworld.MON_PROP.get(mon, ()):
            out.append(common.Violation({"monitor": mon, "cause": cause}, msg, data))
    return out
