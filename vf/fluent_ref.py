"""Reference model and evaluator for fluent programs (C13, also used by C10/C12/C14).

RefAction is a plain container: ordered dims, labels per dim (None where the operation documents none), and an object
ndarray of NumPy arrays. Every fluent operation is re-defined here from its documentation with NumPy only.
Programs are JSON-able lists of op tuples; `run_impl` applies them to the real fluent API, `run_ref` to RefAction."""
from __future__ import annotations

import functools
import itertools
import warnings
from typing import Any

import numpy as np
import xarray as xr

from earthkit.workflows import backends, fluent
from earthkit.workflows.graph import Graph, Node, Output

warnings.filterwarnings("ignore")
try:  # xarray imports dask lazily on first use; do it once, before any per-case watchdog or fork
    import dask.array  # noqa: F401
except Exception:  # pragma: no cover
    pass
DIMNAMES = ["x", "y", "z"]
LABELS = {"x": [10, 11, 12, 13, 14], "y": ["a", "b", "c"], "z": [0.5, 1.5]}


# ---------------------------------------------------------------- payload callables (module level: stable names)
def make_value(tag: int, flat: int, ishape: tuple) -> np.ndarray:
    n = int(np.prod(ishape))
    if tag >= 100:
        # members that are all equal, with values that are not exactly representable (0.1, 0.2, ...): the case in which a
        # one-pass variance cancels to a tiny negative number
        return ((np.arange(n).reshape(ishape) + 1) * 0.1 * (tag - 99)).astype("float64")
    return (np.arange(n).reshape(ishape) * 2 + 1 + 5 * flat + 3 * tag).astype("float64")


def source_fn(tag: int, flat: int, ishape: tuple):
    return make_value(tag, flat, tuple(ishape))


def plus_one(x):
    return x + 1


def add_const(x, c):
    return x + c


def first_of(*arrays):
    return arrays[0] * 1.0


def scale_action(action, c):
    return action.multiply(c)


def ident_or_scale(action, c):
    """function for Action.transform that hands the action back unchanged for one of the parameters"""
    return action if c == 1 else action.multiply(c)


def pick_action(action, label, dim=None, then_sum=None):
    """function for Action.transform whose result already carries `dim` as a scalar coordinate (select without drop)"""
    res = action.select({dim: label})
    return res.sum(then_sum) if then_sum else res


# ---------------------------------------------------------------- reference container
class RefAction:
    def __init__(self, dims: list[str], labels: dict[str, list | None], vals: np.ndarray):
        self.dims, self.labels, self.vals = list(dims), dict(labels), vals

    @property
    def sizes(self):
        return dict(zip(self.dims, self.vals.shape))

    def copy(self):
        return RefAction(self.dims, self.labels, self.vals.copy())

    def map(self, f):
        out = np.empty(self.vals.shape, dtype=object)
        for i in np.ndindex(self.vals.shape):
            out[i] = f(self.vals[i])
        return RefAction(self.dims, self.labels, out)

    def reduce(self, npf, dim: str, keep_dim: bool):
        ax = self.dims.index(dim)
        rest_shape = self.vals.shape[:ax] + self.vals.shape[ax + 1:]
        out = np.empty(rest_shape, dtype=object)
        for i in np.ndindex(rest_shape):
            along = [self.vals[i[:ax] + (k,) + i[ax:]] for k in range(self.vals.shape[ax])]
            out[i] = npf(along)
        dims = [d for d in self.dims if d != dim]
        labels = {d: self.labels[d] for d in dims}
        r = RefAction(dims, labels, out)
        if keep_dim:
            r.dims.insert(ax, dim)
            r.labels[dim] = None  # synthetic label, not documented
            r.vals = np.expand_dims(r.vals, ax)
        return r

    def add_dim(self, name: str, label, axis: int):
        self.dims.insert(axis, name)
        self.labels[name] = [label]
        self.vals = np.expand_dims(self.vals, axis)

    def squeeze(self, dim: str):
        if dim in self.dims and self.sizes[dim] == 1:
            ax = self.dims.index(dim)
            self.vals = np.squeeze(self.vals, ax)
            self.dims.pop(ax)
            self.labels.pop(dim)

    def concat(self, other: "RefAction", dim: str, new_labels=None):
        if dim in self.dims:
            ax = self.dims.index(dim)
            o = other.transposed(self.dims)
            vals = np.concatenate([self.vals, o.vals], axis=ax)
            labels = dict(self.labels)
            la, lb = self.labels[dim], o.labels[dim]
            labels[dim] = None if la is None or lb is None else list(la) + list(lb)
            return RefAction(self.dims, labels, vals)
        o = other.transposed(self.dims)
        vals = np.stack([self.vals, o.vals], axis=0)
        labels = dict(self.labels)
        labels[dim] = new_labels
        return RefAction([dim] + self.dims, labels, vals)

    def transposed(self, dims: list[str]):
        if dims == self.dims:
            return self
        perm = [self.dims.index(d) for d in dims]
        return RefAction(dims, self.labels, np.transpose(self.vals, perm))

    def isel(self, dim: str, idx):
        ax = self.dims.index(dim)
        if isinstance(idx, int):
            rest = self.vals.shape[:ax] + self.vals.shape[ax + 1:]
            vals = np.empty(rest, dtype=object)
            for i in np.ndindex(rest):
                vals[i] = self.vals[i[:ax] + (idx,) + i[ax:]]
            dims = [d for d in self.dims if d != dim]
            return RefAction(dims, {d: self.labels[d] for d in dims}, vals)
        vals = np.take(self.vals, idx, axis=ax)
        labels = dict(self.labels)
        labels[dim] = None if self.labels[dim] is None else [self.labels[dim][i] for i in idx]
        return RefAction(self.dims, labels, vals)


def source_ref(tag: int, shape: tuple, ishape: tuple, dims=None, labels=None) -> RefAction:
    dims = dims or DIMNAMES[: len(shape)]
    vals = np.empty(shape, dtype=object)
    for flat, i in enumerate(np.ndindex(shape)):
        vals[i] = make_value(tag, flat, ishape)
    labels = labels or {d: LABELS[d][: shape[k]] for k, d in enumerate(dims)}
    return RefAction(dims, labels, vals)


def source_impl(tag: int, shape: tuple, ishape: tuple, dims=None, labels=None):
    dims = dims or DIMNAMES[: len(shape)]
    payloads = np.empty(shape, dtype=object)
    for flat, i in enumerate(np.ndindex(shape)):
        payloads[i] = fluent.Payload(source_fn, [tag, flat, list(ishape)])
    labels = labels or {d: LABELS[d][: shape[k]] for k, d in enumerate(dims)}
    return fluent.from_source(payloads, dims=list(dims), coords={d: list(labels[d]) for d in dims})


NPRED = {
    "sum": lambda xs: np.sum(np.stack(xs), axis=0),
    "mean": lambda xs: np.mean(np.stack(xs), axis=0),
    "std": lambda xs: np.std(np.stack(xs), axis=0),
    "min": lambda xs: np.min(np.stack(xs), axis=0),
    "max": lambda xs: np.max(np.stack(xs), axis=0),
    "prod": lambda xs: np.prod(np.stack(xs), axis=0),
}
NPBIN = {"add": np.add, "subtract": np.subtract, "multiply": np.multiply, "divide": np.divide, "power": np.power}


def other_spec(kind: str, cur: RefAction, ishape: tuple):
    """second operand for binary operations, described relative to the current reference state.
    returns (dims, labels, shape) for a fresh source with tag 1"""
    dims = list(cur.dims)
    shape = tuple(cur.vals.shape)
    labels = {}
    for d in dims:
        base = cur.labels[d] if cur.labels[d] is not None else list(range(cur.sizes[d]))
        labels[d] = list(base)
    if kind == "same":
        return dims, labels, shape
    def shifted(vals):
        # different labels of the same type (mixed-type indexes are an xarray quirk, not our subject), and fresh ones:
        # batched reductions select by label, so coordinate values along a dimension must stay unique
        n = len(vals)
        return [(v + 1000 * n) if isinstance(v, (int, float)) and not isinstance(v, bool) else f"j{n}_{v}" for v in vals]

    if kind == "diffcoords":  # same shape, different coordinate values along every dimension
        for d in dims:
            labels[d] = shifted(labels[d])
        return dims, labels, shape
    if kind == "newlabels-first":  # for join along the first dim: other carries different labels there only
        labels[dims[0]] = shifted(labels[dims[0]])
        return dims, labels, shape
    if kind == "drop-first-dim":  # other lacks the receiver's first dimension (e.g. a reduced field subtracted from members)
        return dims[1:], {d: labels[d] for d in dims[1:]}, shape[1:]
    if kind == "extra-dim":  # for broadcast: other has one more leading dimension
        return ["w"] + dims, {"w": [100, 200], **labels}, (2,) + shape
    raise ValueError(kind)


# ---------------------------------------------------------------- applying one op to both sides
def apply_ref(r: RefAction, op: list, ishape_now) -> RefAction:
    name = op[0]
    if name == "map":
        return r.map(plus_one)
    if name in NPRED:
        _, dim, bs, keep = op[:4]
        return r.reduce(NPRED[name], dim, keep)
    if name == "reduce_first":
        return r.reduce(lambda xs: xs[0] * 1.0, op[1], False)
    if name == "stack":
        _, dim, axis, keep = op
        return r.reduce(lambda xs: np.stack(xs, axis=axis), dim, keep)
    if name == "flatten":
        _, dim, axis = op
        return r.reduce(lambda xs: np.stack(xs, axis=axis), dim, False)
    if name == "concatenate":
        _, dim, axis, bs, keep = op
        return r.reduce(lambda xs: np.concatenate(xs, axis=axis), dim, keep)
    if name == "expand":
        _, newdim, internal, size, axis, coordlabels = op
        parts = []
        for i in range(size):
            p = r.map(lambda v, i=i: np.take(v, i, axis=internal))
            p.add_dim(newdim, coordlabels[i] if coordlabels else i, axis)
            parts.append(p)
        out = parts[0]
        for p in parts[1:]:
            out = out.concat(p, newdim)
        out.squeeze(newdim)
        return out
    if name == "expand_coord":
        _, newdim, internal, crit, axis = op
        parts = []
        for i, c in enumerate(crit):
            p = r.map(lambda v, c=c: np.take(v, c, axis=internal))
            p.add_dim(newdim, i, axis)
            parts.append(p)
        out = parts[0]
        for p in parts[1:]:
            out = out.concat(p, newdim)
        out.squeeze(newdim)
        return out
    if name == "reduce_default_dim":  # dim="" means the first dimension
        _, red, bs = op
        return r.reduce(NPRED[red], r.dims[0], False)
    if name == "flatten_default_dim":
        return r.reduce(lambda xs: np.stack(xs, axis=0), r.dims[0], False)
    if name == "sel_kw":  # a.sel(x=label) / a.sel({x: label}, drop=True): same nodes, the scalar coordinate may be dropped
        _, dim, lab, drop = op
        return r.isel(dim, r.labels[dim].index(lab))
    if name == "isel_slice":
        _, dim, start, stop = op
        return r.isel(dim, list(range(r.sizes[dim]))[start:stop])
    if name == "map_array":  # one payload per node
        out = np.empty(r.vals.shape, dtype=object)
        for k, i in enumerate(np.ndindex(r.vals.shape)):
            out[i] = r.vals[i] + (k + 1)
        return RefAction(r.dims, r.labels, out)
    if name == "join_match":  # join(other, new dim, match_coord_values=True): other's labels are ignored
        _, oish = op
        dims, labels, shape = other_spec("diffcoords", r, None)
        o = source_ref(1, shape, tuple(oish), dims, {d: r.labels[d] for d in dims})
        return r.concat(o, "m", None)
    if name == "isel":
        _, dim, idx = op
        return r.isel(dim, idx)
    if name == "sel":
        _, dim, lab = op
        if isinstance(lab, list):
            return r.isel(dim, [r.labels[dim].index(l) for l in lab])
        return r.isel(dim, r.labels[dim].index(lab))
    if name == "broadcast":
        dims, labels, shape = other_spec(op[1], r, None)
        new = [d for d in dims if d not in r.dims]
        out = r.copy()
        for d in new:
            n = shape[dims.index(d)]
            out.dims.insert(0, d)
            out.labels[d] = labels[d]
            out.vals = np.stack([out.vals] * n, axis=0)
        return out
    if name == "join":
        _, kind, dim, newlabels, oish = op
        dims, labels, shape = other_spec(kind, r, None)
        o = source_ref(1, shape, tuple(oish), dims, labels)
        return r.concat(o, dim, newlabels)
    if name in NPBIN:
        _, operand = op[0], op[1]
        if not isinstance(operand, str):
            return r.map(lambda v: NPBIN[name](v, operand))
        dims, labels, shape = other_spec(operand, r, None)
        o = source_ref(1, shape, tuple(op[2]), dims, labels)
        # operands are aligned by dimension NAME: the result has the receiver's dimensions followed by those only the
        # operand has; along shared dimensions the receiver's coordinate values are kept
        rdims = list(r.dims) + [d for d in o.dims if d not in r.dims]
        sizes = {**o.sizes, **r.sizes}
        out = np.empty(tuple(sizes[d] for d in rdims), dtype=object)
        for i in np.ndindex(out.shape):
            pos = dict(zip(rdims, i))
            out[i] = NPBIN[name](r.vals[tuple(pos[d] for d in r.dims)], o.vals[tuple(pos[d] for d in o.dims)])
        rlabels = {d: (r.labels[d] if d in r.labels else o.labels[d]) for d in rdims}
        return RefAction(rdims, rlabels, out)
    if name == "transform_sel":
        # pick members by label and re-join them along the dimension they were picked from
        _, dim, picked, then_sum = op
        parts = []
        for lab in picked:
            p = r.isel(dim, r.labels[dim].index(lab))
            if then_sum:
                p = p.reduce(NPRED["sum"], then_sum, False)
            parts.append(p)
        if len(parts) == 1:
            return parts[0]
        labels = dict(parts[0].labels)
        labels[dim] = list(picked)
        return RefAction([dim] + parts[0].dims, labels, np.stack([p.vals for p in parts], axis=0))
    if name == "transform":
        _, params, newdim, axis, coordlabels = op
        parts = []
        for k, c in enumerate(params):
            p = r.map(lambda v, c=c: v * c)
            p.add_dim(newdim, coordlabels[k] if coordlabels else k, axis)
            parts.append(p)
        out = parts[0]
        for p in parts[1:]:
            out = out.concat(p, newdim)
        out.squeeze(newdim)
        return out
    raise ValueError(name)


def apply_impl(a, op: list, r_before: RefAction):
    name = op[0]
    if name == "map":
        return a.map(plus_one)
    if name in NPRED:
        _, dim, bs, keep = op[:4]
        if len(op) > 4:  # a backend keyword that changes nothing: must be accepted and passed through
            return getattr(a, name)(dim=dim, batch_size=bs, keep_dim=keep, backend_kwargs={"keepdims": False})
        return getattr(a, name)(dim=dim, batch_size=bs, keep_dim=keep)
    if name == "reduce_first":
        return a.reduce(fluent.Payload(first_of), dim=op[1])
    if name == "stack":
        _, dim, axis, keep = op
        return a.stack(dim, axis=axis, keep_dim=keep)
    if name == "flatten":
        _, dim, axis = op
        return a.flatten(dim, axis=axis)
    if name == "concatenate":
        _, dim, axis, bs, keep = op
        return a.concatenate(dim, batch_size=bs, keep_dim=keep, backend_kwargs={"axis": axis})
    if name == "expand":
        _, newdim, internal, size, axis, coordlabels = op
        d = (newdim, list(coordlabels)) if coordlabels else newdim
        return a.expand(d, internal, dim_size=size, axis=axis)
    if name == "expand_coord":
        _, newdim, internal, crit, axis = op
        return a.expand(newdim, (internal, list(crit)), axis=axis)
    if name == "reduce_default_dim":
        _, red, bs = op
        return getattr(a, red)(batch_size=bs)
    if name == "flatten_default_dim":
        return a.flatten()
    if name == "sel_kw":
        _, dim, lab, drop = op
        return a.sel(drop=drop, **{dim: lab}) if drop else a.sel(**{dim: lab})
    if name == "isel_slice":
        _, dim, start, stop = op
        return a.isel({dim: slice(start, stop)})
    if name == "map_array":
        payloads = np.empty(a.nodes.shape, dtype=object)
        for k, i in enumerate(np.ndindex(a.nodes.shape)):
            payloads[i] = fluent.Payload(add_const, [fluent.Node.input_name(0), k + 1])
        return a.map(payloads)
    if name == "join_match":
        _, oish = op
        dims, labels, shape = other_spec("diffcoords", r_before, None)
        o = source_impl(1, shape, tuple(oish), dims, labels)
        return a.join(o, "m", match_coord_values=True)
    if name == "isel":
        _, dim, idx = op
        return a.isel({dim: idx})
    if name == "sel":
        _, dim, lab = op
        return a.sel({dim: lab})
    if name == "broadcast":
        dims, labels, shape = other_spec(op[1], r_before, None)
        o = source_impl(1, shape, tuple(op[2]), dims, labels)
        return a.broadcast(o)
    if name == "join":
        _, kind, dim, newlabels, oish = op
        dims, labels, shape = other_spec(kind, r_before, None)
        o = source_impl(1, shape, tuple(oish), dims, labels)
        d = (dim, list(newlabels)) if newlabels else dim
        return a.join(o, d)
    if name in NPBIN:
        operand = op[1]
        if not isinstance(operand, str):
            return getattr(a, name)(operand)
        dims, labels, shape = other_spec(operand, r_before, None)
        o = source_impl(1, shape, tuple(op[2]), dims, labels)
        return getattr(a, name)(o)
    if name == "transform_sel":
        _, dim, picked, then_sum = op
        return a.transform(functools.partial(pick_action, dim=dim, then_sum=then_sum), [(lab,) for lab in picked], dim)
    if name == "transform":
        _, params, newdim, axis, coordlabels = op
        d = (newdim, list(coordlabels)) if coordlabels else newdim
        return a.transform(scale_action, [(c,) for c in params], d, axis=axis)
    raise ValueError(name)


# ---------------------------------------------------------------- evaluating a fluent graph
class Evaluator:
    """a 30-line interpreter of (func, args, kwargs) payloads"""

    def __init__(self):
        self.memo: dict[int, Any] = {}

    def node(self, n: Node):
        if id(n) in self.memo:
            return self.memo[id(n)]
        func, args, kwargs = n.payload
        ins = {iname: self.output(src) for iname, src in n.inputs.items()}
        call_args = [ins[a] if isinstance(a, str) and a in ins else a for a in args]
        res = func(*call_args, **kwargs)
        if len(n.outputs) > 1 or (n.outputs and n.outputs != [Node.DEFAULT_OUTPUT]):
            res = list(res)
        self.memo[id(n)] = res
        return res

    def output(self, o):
        if isinstance(o, Node):
            o = o.get_output()
        v = self.node(o.parent)
        if o.parent.outputs == [Node.DEFAULT_OUTPUT]:
            return v
        return v[o.parent.outputs.index(o.name)]


def read_action(a) -> RefAction:
    ev = Evaluator()
    nodes = a.nodes
    dims = [str(d) for d in nodes.dims]
    vals = np.empty(nodes.shape, dtype=object)
    data = nodes.data
    for i in np.ndindex(nodes.shape):
        vals[i] = np.asarray(ev.output(data[i]))
    if nodes.shape == ():
        vals = np.empty((), dtype=object)
        vals[()] = np.asarray(ev.output(data[()] if hasattr(data, "__getitem__") else data))
    labels = {}
    for d in dims:
        labels[d] = list(nodes.coords[d].values.tolist()) if d in nodes.coords else None
    return RefAction(dims, labels, vals)


def compare(got: RefAction, want: RefAction, check_order: bool, atol: float = 1e-9) -> str | None:
    if set(got.dims) != set(want.dims):
        return f"dimensions {got.dims} differ from documented {want.dims}"
    if got.sizes != want.sizes:
        return f"dimension sizes {got.sizes} differ from {want.sizes}"
    if check_order and got.dims != want.dims:
        return f"dimension order {got.dims} differs from documented {want.dims}"
    g = got.transposed(want.dims)
    for d in want.dims:
        if want.labels[d] is not None:
            gl = g.labels[d]
            if gl is None or [str(x) for x in gl] != [str(x) for x in want.labels[d]]:
                return f"coordinates of {d}: {gl} differ from documented {want.labels[d]}"
    for i in np.ndindex(want.vals.shape):
        a, b = np.asarray(g.vals[i], dtype=float), np.asarray(want.vals[i], dtype=float)
        if a.shape != b.shape:
            return f"value at {i} has shape {a.shape}, NumPy gives {b.shape}"
        if not np.allclose(a, b, rtol=1e-9, atol=atol, equal_nan=True):
            return f"value at {i} is {a.tolist()}, NumPy gives {b.tolist()}"
    return None
