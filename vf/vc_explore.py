"""Delay-bounded exploration of the whole runtime on vcluster (real code end to end): the default schedule plus every
single deviation (at one choice point a different ready process runs first); final outputs must equal the sequential
interpreter and the cluster must wind down cleanly."""
from __future__ import annotations

from vf import common, vcluster
from vf.jobs import sequential_eval
from vf.simcluster import config_from_json


def one(arg):
    cfg_json, dev = arg
    cfg = config_from_json(cfg_json)
    r = vcluster.run_cluster(cfg.job, cfg.hosts, cfg.workers, horizon_s=600, max_steps=60_000, deviations={int(k): v for k, v in dev.items()})
    r.pop("cluster")
    exp = cfg.expected
    out = []
    if r["phase1"] != "done":
        out.append(("real_run_hangs", "fault-free run on the real stack did not end", f"{r['phase1']}"))
    elif r["exception"] is not None:
        out.append(("real_run_raised", f"{type(r['exception']).__name__} in a fault-free run on the real stack", repr(r["exception"])[:300]))
    else:
        bad = [repr(k) for k in cfg.requested if r["outputs"].get(k) != exp[k]]
        if bad or set(r["outputs"]) != cfg.requested:
            out.append(("real_run_wrong_value", "outputs of the real stack differ from sequential evaluation", f"{bad}"))
        if r.get("phase2") != "done" or r["alive_after"] or r["segments_left"]:
            out.append(("real_run_leftovers", "processes or segments left after a fault-free run", f"{r['alive_after']} {r['segments_left']}"))
    return {"widths": r["choice_widths"], "viol": out, "steps": r["steps"]}


def explore(ctx, configs, prop: str, bound: int = 1):
    """bound 0: default schedule; bound 1: every single deviation"""
    n = 0
    for cfg in configs:
        cj = cfg.describe()
        base = one((cj, {}))
        n += 1
        for (m, c, msg) in base["viol"]:
            ctx.add_violation(common.Violation({"monitor": m, "cause": c}, f"[vcluster {cfg.label()}] {msg}", {"vcluster": True, "config": cj, "dev": {}}))
        if bound >= 1:
            devs = [{str(i): a} for i, w in enumerate(base["widths"]) for a in range(1, w)]
            res = common.pmap(one, [(cj, d) for d in devs], chunksize=4)
            for d, r in zip(devs, res):
                n += 1
                for (m, c, msg) in r["viol"]:
                    ctx.add_violation(common.Violation({"monitor": m, "cause": c}, f"[vcluster {cfg.label()} deviation {d}] {msg}", {"vcluster": True, "config": cj, "dev": d}))
    return n


def replay(data):
    r = one((data["config"], data["dev"]))
    return [common.Violation({"monitor": m, "cause": c}, msg, data) for (m, c, msg) in r["viol"]]
