"""Conformance replay: a SimCluster model trace (Bridge calls + delivered event batches) is replayed against the real
executor stack on vcluster with the *real* controller and a gate on the controller's inbox (DESIGN 2.4).

The replay fails if (i) an event of the next batch is never produced by the real executors (the system goes quiescent
without it), (ii) the real controller, fed the same batches, issues a different Bridge call sequence than the trace,
(iii) at the end event frames remain that the model did not predict, or (iv) the final outputs differ.
Frames of one executor->controller connection are released in the trace's order even when that is not their send
order (the implementation could produce such an order only through retransmission); the count is reported."""
from __future__ import annotations

import pickle

import cascade.executor.bridge as bridge_mod
import cascade.executor.executor as executor_mod
import cascade.executor.msg as msg
from cascade.controller.impl import run as ctrl_run
from cascade.low.core import DatasetId
from cascade.scheduler.graph import precompute

from vf import vcluster
from vf.common import HarnessError
from vf.simcluster import Config

CTRL = "tcp://ctrl:1"


def label_of(m) -> str | None:
    if isinstance(m, msg.DatasetPublished):
        return f"published({m.ds!r}@{m.origin!r}{'' if m.transmit_idx is None else ',tx' + str(m.transmit_idx)})"
    if isinstance(m, msg.DatasetTransmitPayload):
        return f"payload({m.header.ds!r},#{m.header.confirm_idx})"
    return None


def decode(frames):
    m0 = pickle.loads(frames[0])
    if isinstance(m0, msg.Syn):
        rest = frames[1:]
    else:
        rest = frames
    if not rest:
        return None
    m1 = pickle.loads(rest[0])
    if isinstance(m1, msg.DatasetTransmitPayloadHeader):
        return msg.DatasetTransmitPayload(header=m1, value=rest[1])
    return m1


def replay(cfg: Config, trace: list) -> dict:
    """trace: SimCluster.log of a terminal execution. Returns {"ok": bool, "why": str, ...}"""
    cl = vcluster.Cluster()
    S, net = cl.sched, cl.net
    job, pre = cfg.job, precompute(cfg.job)  # a fresh preschedule for this replay
    result: dict = {"outputs": None, "exception": None, "ended": False}
    calls: list = []
    state = {"registered": 0}

    def hold(addr, frames):
        if addr != CTRL:
            return False
        m = decode(frames)
        if isinstance(m, msg.ExecutorRegistration) and state["registered"] < cfg.hosts:
            return True  # registrations are released in host order so that the environment is the model's
        return label_of(m) is not None

    net.hold_filter = hold

    def controller():
        try:
            b = bridge_mod.Bridge(CTRL, cfg.hosts)
            for name in ("task_sequence", "transmit", "fetch", "purge"):
                real = getattr(b, name)

                def wrapped(*a, name=name, real=real):
                    if name == "task_sequence":
                        calls.append(("task_sequence", repr(a[0].worker), list(a[0].tasks)))
                    elif name == "transmit":
                        calls.append(("transmit", repr(a[0]), a[1], a[2]))
                    elif name == "fetch":
                        calls.append(("fetch", repr(a[0]), a[1]))
                    else:
                        calls.append(("purge", a[0], repr(a[1])))
                    return real(*a)

                setattr(b, name, wrapped)
            st = ctrl_run(job, b, pre)
            result["outputs"] = dict(st.outputs)
        except vcluster.VKilled:
            raise
        except Exception as e:
            result["exception"] = e
        finally:
            result["ended"] = True

    def exec_main(i):
        ex = executor_mod.Executor(job, CTRL, cfg.workers, f"h{i}", 100 + 10 * i, None)
        ex.register()
        ex.recv_loop()

    ctrl = S.spawn("controller", controller, kind="controller")
    ctrl.start()
    execs = []
    for i in range(cfg.hosts):
        p = S.spawn(f"executor:h{i}", exec_main, (i,), kind="executor")
        p.start()
        execs.append(p)

    def quiesce(max_steps=200_000):
        """run until only timers could make progress (nothing ready), or the controller ended"""
        while True:
            if result["ended"]:
                return "ended"
            alive = S.alive()
            ready = [p for p in alive if p.killed or p.cond is None or p.cond()]
            if not ready:
                return "quiescent"
            S.steps += 1
            if S.steps > max_steps:
                raise HarnessError("conformance replay: step cap")
            S._resume(ready[0])

    def release(pred) -> bool:
        for i, (addr, fr, tag) in enumerate(net.flight):
            if pred(decode(fr)):
                net.deliver(i)
                return True
        return False

    out_of_order = 0
    try:
        # start-up: registrations in host order
        for h in range(cfg.hosts):
            for _ in range(200):
                quiesce()
                if release(lambda m, h=h: isinstance(m, msg.ExecutorRegistration) and m.host == f"h{h}"):
                    state["registered"] += 1
                    break
                # let timers run (ensure loops sleep 0.1 s)
                timed = [p for p in S.alive() if p.deadline is not None]
                if not timed:
                    return {"ok": False, "why": f"registration of h{h} never produced"}
                p = min(timed, key=lambda q: q.deadline)
                S.now_ns = max(S.now_ns, p.deadline)
                p.timed_out = True
                S._resume(p)
            else:
                return {"ok": False, "why": f"registration of h{h} never produced"}
        pos = 0
        expected_calls: list = []
        while True:
            st = quiesce()
            # everything the controller did since the last batch must equal the trace's commands up to the next batch
            while pos < len(trace) and trace[pos][0] != "events":
                expected_calls.append(tuple(trace[pos]))
                pos += 1
            norm = lambda c: tuple(list(x) if isinstance(x, (list, tuple)) else x for x in c)  # noqa: E731
            if [norm(c) for c in calls] != [norm(c) for c in expected_calls]:
                return {"ok": False, "why": f"controller calls differ from the trace: real {calls[len(expected_calls) - 3:]} model {expected_calls[-3:]}", "at": pos}
            if st == "ended":
                break
            if pos >= len(trace):
                # the model says the run is over; the real controller must end without further events
                # (let its poll timeouts run)
                timed = [p for p in S.alive() if p.deadline is not None]
                if not timed:
                    return {"ok": False, "why": "real controller still waiting although the model trace ended"}
                p = min(timed, key=lambda q: q.deadline)
                S.now_ns = max(S.now_ns, p.deadline)
                if S.now_ns - vcluster.T0 > 600e9:
                    return {"ok": False, "why": "real controller still waiting 600 virtual seconds after the model trace ended"}
                p.timed_out = True
                S._resume(p)
                continue
            batch = trace[pos][1]
            pos += 1
            # (i) every event of the batch must have been produced by the real executors by now
            idxs = []
            for lab in batch:
                found = None
                for i, (addr, fr, tag) in enumerate(net.flight):
                    if i not in idxs and label_of(decode(fr)) == lab:
                        found = i
                        break
                if found is None:
                    held = [label_of(decode(fr)) for (_, fr, _) in net.flight]
                    return {"ok": False, "why": f"event {lab} of the model batch was not produced by the implementation (held: {held})", "at": pos}
                idxs.append(found)
            for k, i in enumerate(idxs):
                tag = net.flight[i][2]
                if any(t == tag and j < i and j not in idxs[:k + 1] and label_of(decode(f)) is not None for j, (_, f, t) in enumerate(net.flight)):
                    out_of_order += 1
            frames = [net.flight[i] for i in idxs]
            for i in sorted(idxs, reverse=True):
                net.flight.pop(i)
            for (addr, fr, tag) in frames:
                net.queues[addr].append(fr)
        # (iii) nothing unexpected left, (iv) outputs
        left = [label_of(decode(fr)) for (_, fr, _) in net.flight if label_of(decode(fr)) is not None]
        if left:
            return {"ok": False, "why": f"implementation produced events the model did not predict: {left}"}
        if result["exception"] is not None:
            return {"ok": False, "why": f"real run raised {result['exception']!r}"}
        exp = cfg.expected
        bad = [repr(k) for k in cfg.requested if result["outputs"].get(k) != exp[k]]
        if bad or set(result["outputs"]) != cfg.requested:
            return {"ok": False, "why": f"final outputs differ: {bad}"}
        return {"ok": True, "why": "", "out_of_connection_order": out_of_order, "steps": S.steps}
    finally:
        S.shutdown()
