"""Real Manager + real shared memory + real Disk threads: a dataset whose writer never finished becomes readable after
the store pages it out as 'stale' and pages it back in."""
import sys, time, os
sys.path.insert(0, "/repo/src")
import cascade.shm.dataset as D
from multiprocessing.shared_memory import SharedMemory
D.get_capacity = lambda: 1 << 30
m = D.Manager("sw%05d" % (os.getpid() % 100000), capacity=4)
shmid, err = m.add("a", 2, "d"); assert err == ""
seg = SharedMemory(shmid, create=True, size=2)   # the writer has its segment, writes half of it, and stalls
seg.buf[0] = 7
real = time.time_ns
D.time = type("T", (), {"time_ns": staticmethod(lambda: real() + 16 * 60 * 10**9)})  # 16 minutes later
print("alloc c:", m.add("c", 3, "d"))          # does not fit: the stale unfinished 'a' is paged out
time.sleep(0.5)
print("status a:", m.datasets["a"].status)
print("get a:", m.get("a")); time.sleep(0.5)    # page-in issued
r = m.get("a")
print("get a:", r)
print("READABLE WITHOUT WRITER CLOSE" if r[-1] == "" else "not readable")
try:
    m.close_callback("a", "")
except Exception as e:
    print("writer close now:", repr(e))
m.atexit()
