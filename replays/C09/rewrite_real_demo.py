"""Real Manager + real shared memory: a key purged while being written and allocated again becomes readable as soon
as the FIRST writer closes, although the writer of the new dataset is still open."""
import os, sys
sys.path.insert(0, "/repo/src")
import cascade.shm.dataset as D
from multiprocessing.shared_memory import SharedMemory
D.get_capacity = lambda: 1 << 30
m = D.Manager("rw%05d" % (os.getpid() % 100000), capacity=8)
shmid, err = m.add("k", 2, "d"); assert err == ""
s1 = SharedMemory(shmid, create=True, size=2)       # first writer at work
m.purge("k")                                         # purged while being written (warned as unsafe, carried out)
shmid2, err = m.add("k", 2, "d"); assert err == ""   # another client writes the key again
s2 = SharedMemory(shmid2, create=True, size=2)
m.close_callback("k", "")                            # the FIRST writer finishes -- its close is taken for the new dataset's
r = m.get("k")
print("get k while the second writer is still open:", r)
print("READABLE BEFORE ITS WRITER FINISHED" if r[-1] == "" else "not readable")
for s in (s1, s2):
    try: s.close()
    except Exception: pass
m.atexit()
