"""Plain pytest replay of every *listed* (status: known) finding, without the explorers:
    PYTHONHASHSEED=0 PYTHONPATH=/repo/src:/verif /venv/bin/python -m pytest -q /verif/replays/tests
Each test loads the recorded minimal input/history/schedule, re-executes it through the check's replay function and
asserts that the recorded signature is observed (twice, identically)."""
import importlib
import json
import os
import sys

import pytest

VERIF = os.path.dirname(os.path.dirname(os.path.dirname(os.path.abspath(__file__))))
sys.path.insert(0, "/repo/src")
sys.path.insert(0, VERIF)

from vf import common  # noqa: E402

common.bind_repo()
ENTRIES = [e for e in json.load(open(os.path.join(VERIF, "known_findings.json")))["entries"] if e["status"] == "known" and e.get("replay")]


@pytest.mark.parametrize("entry", ENTRIES, ids=[f"{e['property']}-{e['signature']['monitor']}-{i}" for i, e in enumerate(ENTRIES)])
def test_known_finding_replays(entry):
    body = json.load(open(os.path.join(VERIF, entry["replay"])))
    assert body["signature"] == entry["signature"]
    mod = importlib.import_module(f"vf.checks.{entry['property'].lower()}")
    ctx = common.Ctx(entry["property"], "quick", 0, "exploration")
    obs = []
    for _ in range(2):
        got = mod.replay(ctx, json.loads(json.dumps(body["replay"])))
        obs.append(sorted(common.sig_key(g.signature) for g in got))
    assert obs[0] == obs[1], "replay is not deterministic"
    assert common.sig_key(entry["signature"]) in obs[0], f"finding no longer reproduces (observed {obs[0]})"
