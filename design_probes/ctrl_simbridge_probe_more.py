import sys
sys.argv=['x']
exec(open(__import__('os').path.join(__import__('os').path.dirname(__file__),'ctrl_simbridge_probe.py')).read().split('if __name__ == "__main__":')[0])
D = lambda t, o="0": DatasetId(t, o)
import itertools
def run_all(name, job, ext, shapes, gpuw=()):
    for hosts, workers in shapes:
        n, dt, fails = explore(job, hosts, workers, ext, gpuw)
        print(name, hosts, workers, "execs", n, f"{dt:.2f}s", "FAILS" if fails else "ok")
        for k, (p, log) in fails.items():
            if "fetch outstanding" in k: continue
            print("   ", k, p); print("      ", log)
shapes=[(1,1),(1,2),(2,1),(2,2),(3,1)]
# three components: chain2, chain2, single
run_all("3comp", mk_job([("t0","0","t1"),("t2","0","t3")],5), [D("t1")], shapes)
# component with chain then fork, plus separate
run_all("chainfork+1", mk_job([("t0","0","t1"),("t1","0","t2"),("t1","0","t3")],5), [D("t2"),D("t3"),D("t4")], shapes)
# two components where second is bigger later
run_all("join+chain", mk_job([("t0","0","t2"),("t1","0","t2"),("t3","0","t4")],5), [D("t2"),D("t4")], shapes)
# gpu: t1 needs gpu
for gw in [((0,0),), ((1,0),), ((0,1),)]:
    run_all(f"gpu{gw}", mk_job([("t0","0","t1"),("t2","0","t3")],4, gpu=("t1",)), [D("t1"),D("t3")], [(2,1),(2,2)], gpuw=gw)
