"""Feasibility probe (NOT framework code): step real DataServer objects one loop pass at a time, no threads.
Seams: fake zmq (non-blocking), virtual pool with pending real Futures, shm client -> real LocalServer/Manager
handled synchronously in-process, virtual clock. Scenario: transmit d (A->B), payload Ack lost once -> 4 s retry."""
import sys, collections, logging, types, pickle
sys.path.insert(0, "/repo/src")
logging.disable(logging.CRITICAL)
import logging.config
logging.config.dictConfig = lambda *a, **k: None
from concurrent.futures import Future

import cascade.executor.comms as comms
import cascade.executor.data_server as ds_mod
import cascade.shm.client as shm_client
import cascade.shm.server as shm_server
import cascade.shm.api as shm_api
import cascade.shm.dataset as shm_dataset
from cascade.executor.msg import (DatasetTransmitCommand, DatasetPurge, Syn, Ack, DatasetPublished)
from cascade.executor.serde import ser_message, des_message
from cascade.executor.runner.memory import ds2shmid
from cascade.low.core import DatasetId

NOW = [10_000_000_000_000]


# ---- fake zmq: address -> deque of multipart frames; never blocks
class Z:
    PULL, PUSH, POLLIN, LINGER = 1, 2, 1, 17
    net = collections.defaultdict(collections.deque)

    class Context:
        def socket(self, t):
            return Z.Socket()

    class Socket:
        addr = None

        def set(self, *a): pass
        def bind(self, a): self.addr = a
        def connect(self, a): self.addr = a
        def send(self, b): Z.net[self.addr].append([bytes(b)])
        def send_multipart(self, fr): Z.net[self.addr].append([bytes(f) for f in fr])
        def recv_multipart(self): return Z.net[self.addr].popleft()

    class Poller:
        def register(self, s, flags=None): self.s = s
        def poll(self, timeout=None): return [(self.s, 1)] if Z.net[self.s.addr] else []


comms.zmq = Z
comms.get_context = lambda: Z.Context()
ds_mod.time_ns = lambda: NOW[0]

# ---- shm: per-host real LocalServer (constructed without its socket), requests handled synchronously
shm_dataset.get_capacity = lambda: 1 << 20
CUR_HOST = [None]
SERVERS = {}


class OneShot(BaseException):
    pass


class SrvSock:
    def __init__(self): self.inq, self.out = collections.deque(), None
    def recvfrom(self, n):
        if not self.inq:
            raise OneShot()
        return self.inq.popleft(), "client"
    def sendto(self, b, addr): self.out = bytes(b)
    def close(self): pass


def mk_server(host):
    srv = object.__new__(shm_server.LocalServer)
    srv.sock = SrvSock()
    srv.manager = shm_dataset.Manager(f"p{host}", 64)
    SERVERS[host] = srv


class CliSockMod:
    AF_INET, SOCK_DGRAM = 2, 2

    class socket:
        def __init__(self, *a): self.resp = None
        def connect(self, addr): pass
        def send(self, b):
            srv = SERVERS[CUR_HOST[0]]
            srv.sock.inq.append(bytes(b))
            try:
                srv.start()          # real dispatch loop: handles one request, then OneShot unwinds it
            except OneShot:
                pass
            self.resp = srv.sock.out
        def recv(self, n): return self.resp
        def close(self): pass


shm_client.socket = CliSockMod
shm_api.get_client_port = lambda: 1
shm_api.publish_client_port = lambda p: None


# ---- virtual pool
class VPool:
    def __init__(self, max_workers=None): self.pending = []
    def submit(self, fn, *a):
        f = Future()
        self.pending.append((f, fn, a))
        return f
    def complete(self, i=0):
        f, fn, a = self.pending.pop(i)
        f.set_running_or_notify_cancel()
        try:
            f.set_result(fn(*a))
        except Exception as e:
            f.set_exception(e)


ds_mod.ThreadPoolExecutor = VPool


def mk_ds(host):
    mk_server(host)
    s = ds_mod.DataServer(f"m.{host}", f"d.{host}", host, 1, {})
    return s


def step(server, host, nmsgs=None):
    """one pass of the real recv_loop: the fake recv_messages flips `terminating`"""
    CUR_HOST[0] = host
    real = server.dlistener.recv_messages

    def once(timeout_ms=None):
        server.terminating = True
        return real(0)
    server.dlistener.recv_messages = once
    server.terminating = False
    try:
        server.recv_loop()
    finally:
        server.dlistener.recv_messages = real


def main():
    A, B = mk_ds("A"), mk_ds("B")
    d = DatasetId("t", "0")
    # put d into A's shm through the real client
    CUR_HOST[0] = "A"
    buf = shm_client.allocate(ds2shmid(d), 5, "cloudpickle.loads"); buf.view()[:5] = b"hello"; buf.close()
    # controller command arrives at A's data socket (Syn + command)
    cmd = DatasetTransmitCommand(source="A", target="B", daddress="d.B", ds=d, idx=0)
    Z.net["d.A"].append([ser_message(Syn(7, "ctrl")), ser_message(cmd)])
    step(A, "A");                     print("A futs", len(A.futs_in_progress), "pending", len(A.ds_proc_tp.pending), "ack->ctrl", len(Z.net["ctrl"]))
    CUR_HOST[0] = "A"; A.ds_proc_tp.complete(); print("payload frames at d.B:", len(Z.net["d.B"]))
    step(B, "B");                     print("B pending store:", len(B.ds_proc_tp.pending), "ack frames at d.A:", len(Z.net["d.A"]))
    CUR_HOST[0] = "B"; B.ds_proc_tp.complete()
    print("notice at m.B:", [des_message(f[0]) for f in Z.net["m.B"]])
    CUR_HOST[0] = "B"; rb = shm_client.get(ds2shmid(d)); print("bytes at B:", bytes(rb.view()), rb.deser_fun); rb.close()
    # lose the Ack, let A clean up, advance the clock 5 s -> retry scan resubmits
    Z.net["d.A"].clear()
    step(A, "A"); print("A awaiting:", {k: v[1] > 0 for k, v in A.awaiting_confirmation.items()})
    NOW[0] += 5_000_000_000
    step(A, "A"); print("after 5 s: retry submitted:", len(A.ds_proc_tp.pending))
    CUR_HOST[0] = "A"; A.ds_proc_tp.complete(); step(B, "B")
    print("B stores again? pending:", len(B.ds_proc_tp.pending), "(duplicate Syn dropped by Listener); second ack at d.A:", len(Z.net["d.A"]))
    step(A, "A"); NOW[0] += 5_000_000_000; step(A, "A"); print("A awaiting after ack:", A.awaiting_confirmation, "acks", A.acks)
    # purge at B then late duplicate payload must not resurrect
    Z.net["d.B"].append([ser_message(DatasetPurge(ds=d))]); step(B, "B")
    print("B datasets after purge:", list(SERVERS["B"].manager.datasets), "invalid:", B.invalid)
    for h in ("A", "B"):
        SERVERS[h].manager.atexit()


if __name__ == "__main__":
    main()
