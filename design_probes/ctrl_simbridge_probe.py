"""Feasibility probe (NOT framework code): drive cascade.controller.impl.run with a scripted bridge,
stateless replay DFS over event delivery choices. Measures executions/sec and finds crashes."""
import sys, time, itertools, logging
sys.path.insert(0, "/repo/src")
logging.disable(logging.CRITICAL)
from cascade.controller.impl import run
from cascade.scheduler.graph import precompute
from cascade.low.core import (JobInstance, TaskInstance, TaskDefinition, Task2TaskEdge, DatasetId,
                              Environment, Worker, WorkerId)
from cascade.executor.msg import DatasetPublished, DatasetTransmitPayload, DatasetTransmitPayloadHeader
import cloudpickle


class Stop(BaseException):
    pass


def mk_job(edges, ntasks, outs=None, gpu=()):
    tasks = {}
    for i in range(ntasks):
        t = f"t{i}"
        o = (outs or {}).get(t, ["0"])
        tasks[t] = TaskInstance(
            definition=TaskDefinition(func=None, entrypoint="x", environment=[], input_schema={},
                                      output_schema={k: "Any" for k in o}, needs_gpu=(t in gpu)),
            static_input_kw={}, static_input_ps={})
    es = []
    for n, (s, so, d) in enumerate(edges):
        es.append(Task2TaskEdge(source=DatasetId(s, so), sink_task=d, sink_input_kw=None, sink_input_ps=n))
    return JobInstance(tasks=tasks, edges=es)


class SimBridge:
    """Abstract cluster. choices: list of ints consumed at each recv_events; beyond the list -> Stop."""

    def __init__(self, job, hosts, workers, choices, gpuw=()):
        self.job = job
        self.env = Environment(workers={WorkerId(f"h{h}", f"w{w}"): Worker(cpu=1, gpu=1 if (h, w) in gpuw else 0, memory_mb=1)
                                        for h in range(hosts) for w in range(workers)})
        self.choices = list(choices)
        self.pos = 0
        self.store = {h: set() for h in {w.host for w in self.env.workers}}
        self.pending = []  # list of events enabled for delivery (each: (kind, payload))
        self.waiting = []  # task sequences waiting for inputs (worker, task)
        self.transfers = []  # (ds, src, tgt)
        self.log = []
        self.npoints = []
        self.inputs = {}
        for e in job.edges:
            self.inputs.setdefault(e.sink_task, set()).add(e.source)
        self.busy = set()
        self.dispatched = []
        self.purged = set()
        self.outstanding_fetch = []
        self.shutdown_called = False

    def get_environment(self):
        return self.env

    def task_sequence(self, ts):
        assert ts.worker not in self.busy, f"dispatch to busy worker {ts}"
        self.busy.add(ts.worker)
        for t in ts.tasks:
            assert t not in self.dispatched, f"double dispatch {t}"
            self.dispatched.append(t)
            self.waiting.append((ts.worker, t))
        self.log.append(("ts", repr(ts.worker), tuple(ts.tasks)))

    def transmit(self, ds, source, target):
        assert ds in self.store[source], f"transmit of {ds} from {source} which lacks it"
        self.transfers.append((ds, source, target))
        self.log.append(("tx", repr(ds), source, target))

    def fetch(self, ds, source):
        assert ds in self.store[source], f"fetch of {ds} from {source} which lacks it"
        self.outstanding_fetch.append((ds, source))
        self.log.append(("fetch", repr(ds), source))

    def purge(self, host, ds):
        assert ds in self.store[host] or any(t[0] == ds and t[2] == host for t in self.transfers), f"purge of absent {ds}@{host}"
        for (d, s) in self.outstanding_fetch:
            assert not (d == ds and s == host), f"purge of {ds}@{host} while fetch outstanding"
        for (d, s, t) in self.transfers:
            assert not (d == ds and s == host), f"purge of {ds}@{host} while transfer outstanding"
        self.store[host].discard(ds)
        self.purged.add((host, ds))
        self.log.append(("purge", host, repr(ds)))

    def shutdown(self):
        self.shutdown_called = True

    def enabled(self):
        ev = []
        for i, (w, t) in enumerate(self.waiting):
            if all(d in self.store[w.host] for d in self.inputs.get(t, ())):
                ev.append(("run", i))
        for i, (ds, s, t) in enumerate(self.transfers):
            if ds in self.store[s]:
                ev.append(("xfer", i))
        for i, (ds, s) in enumerate(self.outstanding_fetch):
            ev.append(("payload", i))
        return ev

    def recv_events(self):
        en = self.enabled()
        if not en:
            raise AssertionError("controller waits but nothing outstanding (deadlock)")
        if self.pos >= len(self.choices):
            self.npoints.append(len(en))
            raise Stop()
        c = self.choices[self.pos]
        self.pos += 1
        self.npoints.append(len(en))
        kind, i = en[c]
        out = []
        if kind == "run":
            w, t = self.waiting.pop(i)
            for o in sorted(self.job.tasks[t].definition.output_schema):
                ds = DatasetId(t, o)
                self.store[w.host].add(ds)
                out.append(DatasetPublished(origin=w, ds=ds, transmit_idx=None))
            self.busy.discard(w)
        elif kind == "xfer":
            ds, s, t = self.transfers.pop(i)
            if ds not in self.store[t]:
                self.store[t].add(ds)
                out.append(DatasetPublished(origin=t, ds=ds, transmit_idx=7))
            else:
                return self.recv_events() if self.enabled() else []
        else:
            ds, s = self.outstanding_fetch.pop(i)
            out.append(DatasetTransmitPayload(
                header=DatasetTransmitPayloadHeader(confirm_address="", confirm_idx=0, ds=ds, deser_fun="cloudpickle.loads"),
                value=cloudpickle.dumps(repr(ds))))
        return out


def explore(job, hosts, workers, ext, gpuw=()):
    pre = precompute(job)
    job.ext_outputs = list(ext)
    n = 0
    fails = {}
    stack = [[]]
    t0 = time.time()
    while stack:
        prefix = stack.pop()
        b = SimBridge(job, hosts, workers, prefix, gpuw)
        n += 1
        try:
            st = run(job, b, pre)
            assert st.remaining == 0, "remaining"
            assert all(v is not None for v in st.outputs.values())
            assert len(b.dispatched) == len(job.tasks)
        except Stop:
            k = b.npoints[-1]
            for c in range(k):
                stack.append(prefix + [c])
        except Exception as e:
            key = f"{type(e).__name__}: {str(e)[:150]}"
            if key not in fails:
                fails[key] = (prefix, b.log)
    return n, time.time() - t0, fails


if __name__ == "__main__":
    D = lambda t, o="0": DatasetId(t, o)
    jobs = {
        "chain3": (mk_job([("t0", "0", "t1"), ("t1", "0", "t2")], 3), [D("t2")]),
        "diamond": (mk_job([("t0", "0", "t1"), ("t0", "0", "t2"), ("t1", "0", "t3"), ("t2", "0", "t3")], 4), [D("t3"), D("t0")]),
        "2comp": (mk_job([("t0", "0", "t1"), ("t2", "0", "t3")], 4), [D("t1"), D("t3")]),
        "fan": (mk_job([("t0", "0", "t1"), ("t0", "0", "t2"), ("t0", "0", "t3")], 4), [D("t0"), D("t1")]),
        "multi": (mk_job([("t0", "0", "t1"), ("t0", "1", "t2")], 3, outs={"t0": ["0", "1"]}), [D("t0", "1"), D("t2")]),
    }
    for name, (job, ext) in jobs.items():
        for hosts, workers in [(1, 1), (1, 2), (2, 1), (2, 2), (3, 1)]:
            n, dt, fails = explore(job, hosts, workers, ext)
            print(name, hosts, workers, "execs", n, f"{dt:.2f}s", "FAILS" if fails else "ok")
            for k, (p, log) in fails.items():
                print("   ", k, p)
                print("      ", log)
