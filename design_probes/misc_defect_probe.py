import sys, warnings, logging
warnings.filterwarnings("ignore"); logging.disable(logging.CRITICAL)
sys.path.insert(0, "/repo/src")
from earthkit.workflows.graph import Node, Graph, copy_graph, expand_graph, serialise, deserialise
# (a)
n = Node("n", outputs=["name"]); m = Node("m", outputs=[], x=n.get_output("name"))
try:
    g2 = copy_graph(Graph([m])); print("(a) copy input type:", type(list(g2.sinks[0].inputs.values())[0]).__name__)
except Exception as e: print("(a) EXC", type(e).__name__, e)
# expand lstrip
def expander(node):
    if node.name == "main":
        s = Node("src"); a = Node("a_out", outputs=[], input=s)   # sink named like an output
        return Graph([a]), None, {"0": "a_out"}
    return None
r = Node("r"); main = Node("main", i=r); w = Node("w", outputs=[], x=main)
try:
    g3 = expand_graph(expander, Graph([w])); print("(a2) expand: w input:", list(g3.sinks[0].inputs.values()) if g3.sinks else g3.sinks)
except Exception as e: print("(a2) EXC", type(e).__name__, e)
# serialise terminal nodes with outputs
t = Node("t", x=Node("s"))
d = serialise(Graph([t])); g4 = deserialise(d); print("(a3) roundtrip nodes:", [x.name for x in g4.nodes()], g4 == Graph([t]))
# (b),(c)
from cascade.low.builders import TaskBuilder, JobBuilder
def f(a: int, b: int = 2) -> int: return a + b
try: print("(b)", TaskBuilder.from_callable(f).with_values(1).static_input_ps)
except Exception as e: print("(b) EXC", type(e).__name__, e)
tb = TaskBuilder.from_callable(f)
try: print("(c)", JobBuilder().with_node("x", tb).with_edge("x", "nosuch", "a").build().e)
except Exception as e: print("(c) EXC", type(e).__name__, e)
try: print("(c2) positional edge to missing source:", JobBuilder().with_node("x", tb).with_edge("nosuch", "x", 0).build().e)
except Exception as e: print("(c2) EXC", type(e).__name__, e)
try: print("(c3) unknown kw value:", JobBuilder().with_node("x", tb.with_values(zzz=1)).build().e)
except Exception as e: print("(c3) EXC", type(e).__name__, e)
# (d)
import cascade.shm.api as api
for msg in [api.FreeSpaceResponse(free_space=2**32), api.GetResponse(shmid="s", l=2**32, rdid="r", error="", deser_fun="d"),
            api.DatasetStatusResponse(status=api.DatasetStatus.ready), api.AllocateRequest(key="k", l=2**40, deser_fun="d")]:
    try: print("(d)", type(msg).__name__, api.deser(api.ser(msg)) == msg)
    except Exception as e: print("(d) EXC", type(msg).__name__, type(e).__name__, e)
# (f)
from cascade.gateway.router import JobRouter, Job
class P: 
    def unregister(self, s): pass
jr = JobRouter(P()); jr.jobs["j"] = Job(None, "0.00", -1, {})
jr.maybe_update("j", "50.00", 200); jr.maybe_update("j", "25.00", 100); print("(f) progress after late older report:", jr.jobs["j"].progress)
