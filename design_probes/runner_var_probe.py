import sys, warnings, logging
warnings.filterwarnings("ignore"); logging.disable(logging.CRITICAL)
sys.path.insert(0, "/repo/src")
import numpy as np
from earthkit.workflows import backends
a=[np.array([1.,2.]),np.array([5.,9.]),np.array([2.,2.]),np.array([7.,1.])]
print("var batchable flag:", getattr(backends.var,'batchable',False), " var(all)=",backends.var(*a), " var(var(b1),var(b2))=", backends.var(backends.var(*a[:2]), backends.var(*a[2:])))
# runner: N-1 results and N>10 binding, using real runner.run with a stub Memory
import cascade.executor.runner.runner as R
from cascade.low.core import TaskInstance, TaskDefinition, DatasetId
class Mem:
    def __init__(s): s.h={}
    def handle(s, oid, schema, val, pub): s.h[oid]=val
    def provide(s, i, a): raise KeyError
def mk(n, k):
    def gen():
        for i in range(k): yield i
    return TaskInstance(definition=TaskDefinition(func=TaskDefinition.func_enc(gen), environment=[], input_schema={}, output_schema={str(i):"Any" for i in range(n)}), static_input_kw={}, static_input_ps={})
for n,k in [(3,2),(3,1),(3,4),(12,12)]:
    m=Mem(); ctx=R.ExecutionContext(tasks={"t":mk(n,k)}, param_source={"t":{}}, callback="", publish=set())
    try:
        R.run("t", ctx, m); print(f"N={n} yields={k}: no error; bound:", {d.output:v for d,v in m.h.items()} if n>10 else len(m.h))
    except Exception as e: print(f"N={n} yields={k}:", type(e).__name__, e)
