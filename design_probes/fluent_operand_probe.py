import sys, warnings
warnings.filterwarnings("ignore")
sys.path.insert(0, "/repo/src")
import numpy as np, functools
from earthkit.workflows.fluent import from_source, Payload
def src(v): return np.array([v, v + 1.0])
a = from_source(np.array([functools.partial(src, i) for i in range(4)]), dims=["x"], coords={"x": [0, 1, 2, 3]})
b = from_source(np.array([functools.partial(src, 10 + i) for i in range(4)]), dims=["x"], coords={"x": [10, 11, 12, 13]})
c = a.subtract(b)
print("operand coords after subtract:", b.nodes.coords["x"].data)
d = from_source(np.array([[functools.partial(src, 1)], [functools.partial(src, 2)]]), dims=["y", "x"], coords={"y": [0, 1], "x": [5]})
e = d.stack("x")
print("stack size1:", d.nodes.dims, e is d)
e2 = d.concatenate("x"); print(d.nodes.dims)
