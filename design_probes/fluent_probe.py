import sys, warnings
warnings.filterwarnings("ignore")
sys.path.insert(0, "/repo/src")
import numpy as np, functools
from earthkit.workflows import fluent, backends
from earthkit.workflows.fluent import from_source, Payload

def src(v):
    return np.array([v, v + 1.0])
a = from_source(np.array([functools.partial(src, i) for i in range(4)]), dims=["x"])
print("names", [n.name[:20] for n in a.nodes.data])
# 1 lambda collision
m1 = a.map(lambda x: x + 1); m2 = a.map(lambda x: x * 2)
print("lambda collide:", m1.nodes.data[0].name == m2.nodes.data[0].name)
# 2 keep_dim with batching
try:
    r = a.sum("x", batch_size=2, keep_dim=True); print("keepdim batch ok", r.nodes.dims)
except Exception as e:
    print("keepdim batch FAIL", type(e).__name__, e)
# 3 join mutation
b = from_source(np.array([functools.partial(src, 10 + i) for i in range(4)]), dims=["x"], coords={"x": [10, 11, 12, 13]})
before = b.nodes.coords["x"].data.copy()
c = a.subtract(b)
print("operand mutated:", not np.array_equal(before, b.nodes.coords["x"].data), b.nodes.coords["x"].data)
# 4 stack size-1 mutation
d = from_source(np.array([[functools.partial(src, 1)], [functools.partial(src, 2)]]), dims=["y", "x"])
dims_before = d.nodes.dims
e = d.stack("x")
print("stack size1 mutates:", dims_before, "->", d.nodes.dims, e is d)
# 5 std keep_dim
s = a.std("x", keep_dim=True); print("std keep_dim dims:", s.nodes.dims, " mean keep_dim dims:", a.mean("x", keep_dim=True).nodes.dims)
# 6 generator outputs >10
def gen():
    for i in range(12): yield i
g = from_source(np.array([gen]), yields=("k", list(range(12))), dims=["s"])
print(g.nodes.dims, [str(o) for o in g.nodes.data.flatten()][:3])
from cascade.low.into import graph2job
job = graph2job(g.graph())
t = list(job.tasks.values())[0]
print(sorted(t.definition.output_schema.keys()))
