import sys, logging
sys.path.insert(0, "/repo/src")
logging.disable(logging.CRITICAL)
import cascade.shm.dataset as D
import cascade.shm.disk as disk
D.get_capacity = lambda: 1 << 40
class VDisk:
    def __init__(self): self.jobs = []
    def page_out(self, shmid, cb): self.jobs.append(("out", shmid, cb))
    def page_in(self, shmid, size, cb): self.jobs.append(("in", shmid, cb))
    def atexit(self): pass
D.disk.Disk = VDisk
m = D.Manager("pX", capacity=4)
print(m.add("a", 3, "f"))      # granted, status created (writer open) -> not evictable
print(m.add("b", 3, "f"))      # needs eviction, nothing evictable -> wait; lock leaked?
print("pageout_all locked:", m.pageout_all.locked(), "count", m.pageout_count)
m.close_callback("a", "")      # writer closes: a is now in_memory and idle -> evictable
for i in range(3):
    print("retry", m.add("b", 3, "f"), "jobs", len(m.disk.jobs))
