"""Feasibility spike (NOT framework code): whole cascade cluster in ONE process.
Real controller/Bridge/Executor/worker entrypoint/DataServer/shm server code, each as a thread that only runs
when handed the baton; zmq, UDP, time, multiprocessing replaced by virtual seams via module attributes."""
import sys, threading, collections, logging, time as _time, types
sys.path.insert(0, "/repo/src")
logging.disable(logging.CRITICAL)

# ---------------------------------------------------------------- scheduler / virtual processes
class VKilled(BaseException):
    pass


class Sched:
    def __init__(self):
        self.now_ns = 1_000_000_000_000
        self.procs = []
        self.current = None
        self.main_sem = threading.Semaphore(0)
        self.steps = 0
        self.trace = []

    def spawn(self, name, target, args=(), kwargs=None, env=None):
        p = VProc(self, name, target, args, kwargs or {}, env)
        self.procs.append(p)
        return p

    # called from a vproc thread: give the baton back and wait until woken
    def block(self, cond, deadline_ns=None):
        p = self.current
        p.cond, p.deadline = cond, deadline_ns
        p.timed_out = False
        self.main_sem.release()
        p.sem.acquire()
        if p.killed:
            raise VKilled()
        return not p.timed_out

    def run(self, max_steps=200000):
        while True:
            alive = [p for p in self.procs if p.started and not p.dead]
            if not alive:
                return "all-exited"
            ready = [p for p in alive if p.cond is None or p.cond()]
            if ready:
                p = ready[0]
            else:
                timed = [p for p in alive if p.deadline is not None]
                if not timed:
                    return "deadlock:" + ",".join(p.name for p in alive)
                p = min(timed, key=lambda q: q.deadline)
                self.now_ns = max(self.now_ns, p.deadline)
                p.timed_out = True
            self.steps += 1
            if self.steps > max_steps:
                return "step-cap"
            self.current = p
            p.cond = None
            p.deadline = None
            if not p.thread_started:
                p.thread_started = True
                p.thread.start()
            else:
                p.sem.release()
            self.main_sem.acquire()
            self.current = None


class VProc:
    _pid = 1000

    def __init__(self, sched, name, target, args, kwargs, env):
        self.sched, self.name, self.target, self.args, self.kwargs = sched, name, target, args, kwargs
        self.env = dict(env or {})
        self.sem = threading.Semaphore(0)
        self.started = False
        self.thread_started = False
        self.dead = False
        self.killed = False
        self.exitcode = None
        self.cond = None
        self.deadline = None
        self.timed_out = False
        VProc._pid += 1
        self.pid = VProc._pid
        self.thread = threading.Thread(target=self._body, daemon=True)
        self.exc = None

    def _body(self):
        try:
            self.target(*self.args, **self.kwargs)
            self.exitcode = 0
        except VKilled:
            self.exitcode = -9
        except SystemExit as e:
            self.exitcode = e.code if isinstance(e.code, int) else 1
        except BaseException as e:  # noqa
            self.exitcode = 1
            self.exc = e
        self.dead = True
        self.sched.main_sem.release()

    # multiprocessing.Process API
    def start(self):
        cur = self.sched.current
        if cur is not None:
            self.env = dict(cur.env)
        self.started = True

    def join(self, timeout=None):
        self.sched.block(lambda: self.dead)

    def is_alive(self):
        return self.started and not self.dead

    def kill(self):
        if not self.dead:
            self.killed = True
            self.cond = None  # runnable: wakes up and raises VKilled


S = Sched()

# ---------------------------------------------------------------- fake time
class FakeTime:
    @staticmethod
    def time_ns():
        return S.now_ns

    @staticmethod
    def time():
        return S.now_ns / 1e9

    @staticmethod
    def sleep(sec):
        S.block(lambda: False, S.now_ns + int(sec * 1e9))


# ---------------------------------------------------------------- fake zmq
class FakeZmq:
    PULL, PUSH, REQ, REP, POLLIN, LINGER = 1, 2, 3, 4, 1, 17
    inbox = collections.defaultdict(collections.deque)
    nsent = 0

    class Context:
        def socket(self, typ):
            return FakeZmq.Socket(typ)

    class Socket:
        def __init__(self, typ):
            self.typ, self.addr = typ, None

        def set(self, *a):
            pass

        def bind(self, addr):
            self.addr = addr

        def connect(self, addr):
            self.addr = addr

        def send(self, b):
            self.send_multipart((b,))

        def send_multipart(self, frames):
            FakeZmq.nsent += 1
            FakeZmq.inbox[self.addr].append([bytes(f) for f in frames])

        def _ready(self):
            return len(FakeZmq.inbox[self.addr]) > 0

        def recv_multipart(self):
            if not self._ready():
                S.block(self._ready)
            return FakeZmq.inbox[self.addr].popleft()

        def recv(self):
            return self.recv_multipart()[0]

    class Poller:
        def __init__(self):
            self.socks = []

        def register(self, sock, flags=None):
            self.socks.append(sock)

        def unregister(self, sock):
            self.socks.remove(sock)

        def poll(self, timeout=None):
            rd = lambda: [(s, FakeZmq.POLLIN) for s in self.socks if s._ready()]
            r = rd()
            if r or timeout == 0:
                return r
            S.block(lambda: bool(rd()), None if timeout is None else S.now_ns + int(timeout * 1e6))
            return rd()


# ---------------------------------------------------------------- fake UDP sockets (shm client/server)
class FakeSocketMod:
    AF_INET, SOCK_DGRAM = 2, 2
    servers = {}

    @staticmethod
    def gethostname():
        return "vhost"

    class socket:
        def __init__(self, *a):
            self.q = collections.deque()
            self.port = None
            self.peer = None

        def bind(self, addr):
            self.port = addr[1]
            FakeSocketMod.servers[self.port] = self

        def connect(self, addr):
            self.peer = addr[1]

        def send(self, b):
            srv = FakeSocketMod.servers.get(self.peer)
            if srv is None:
                raise ConnectionRefusedError()
            srv.q.append((bytes(b), self))

        def recvfrom(self, n):
            if not self.q:
                S.block(lambda: bool(self.q))
            return self.q.popleft()

        def recv(self, n):
            if not self.q:
                S.block(lambda: bool(self.q))
            return self.q.popleft()

        def sendto(self, b, client):
            client.q.append(bytes(b))

        def close(self):
            if self.port is not None:
                FakeSocketMod.servers.pop(self.port, None)


# ---------------------------------------------------------------- install seams
import cascade.executor.comms as comms
import cascade.executor.bridge as bridge
import cascade.executor.executor as executor
import cascade.executor.data_server as data_server
import cascade.executor.runner.entrypoint as entrypoint
import cascade.shm.client as shm_client
import cascade.shm.server as shm_server
import cascade.shm.api as shm_api
import cascade.shm.dataset as shm_dataset
import cascade.controller.report as report
import logging.config
from concurrent.futures import Future

logging.config.dictConfig = lambda *a, **k: None
for mod in (comms, entrypoint, report):
    mod.zmq = FakeZmq
comms.time = FakeTime
bridge.time = FakeTime
shm_client.time = FakeTime
data_server.time_ns = FakeTime.time_ns
shm_client.socket = FakeSocketMod
shm_server.socket = FakeSocketMod
executor.socket = FakeSocketMod
shm_server.signal = types.SimpleNamespace(signal=lambda *a: None, SIGINT=2, SIGTERM=15)
executor.atexit = types.SimpleNamespace(register=lambda f: None)
shm_dataset.get_capacity = lambda: 1 << 30
_ctx_cache = {}
comms.get_context = lambda: FakeZmq.Context()


class FakeMPCtx:
    def Process(self, target=None, args=(), kwargs=None):
        return S.spawn(getattr(target, "__name__", "proc"), target, args, kwargs)


executor.get_context = lambda kind: FakeMPCtx()
shm_api.publish_client_port = lambda port: S.current.env.__setitem__("CASCADE_SHM_PORT", str(port))
shm_api.get_client_port = lambda: int(S.current.env["CASCADE_SHM_PORT"])


class InlinePool:
    def __init__(self, max_workers=None):
        pass

    def submit(self, fn, *a, **k):
        f = Future()
        try:
            f.set_result(fn(*a, **k))
        except Exception as e:
            f.set_exception(e)
        return f


data_server.ThreadPoolExecutor = InlinePool

# ---------------------------------------------------------------- a job and a run
from cascade.low.builders import JobBuilder, TaskBuilder
from cascade.low.core import DatasetId
from cascade.scheduler.graph import precompute
from cascade.controller.impl import run


def src(a: int, b: int) -> int:
    return a + b


def comb(a: int, b: int) -> int:
    return a * 10 + b


def mk():
    s = TaskBuilder.from_callable(src)
    job = (JobBuilder()
           .with_node("s1", s.with_values(a=1, b=2)).with_node("s2", s.with_values(a=3, b=4))
           .with_node("c1", TaskBuilder.from_callable(comb)).with_edge("s1", "c1", "a").with_edge("s2", "c1", "b")
           .with_node("c2", TaskBuilder.from_callable(comb)).with_edge("s2", "c2", "a").with_edge("c1", "c2", "b")
           .build().get_or_raise())
    job.ext_outputs = [DatasetId("c2", "0"), DatasetId("s1", "0")]
    return job


def main(hosts, workers):
    job = mk()
    pre = precompute(job)
    result = {}

    def controller():
        b = bridge.Bridge("tcp://ctrl:1", hosts)
        st = run(job, b, pre)
        result["outputs"] = dict(st.outputs)

    def exec_main(i):
        ex = executor.Executor(job, "tcp://ctrl:1", workers, f"h{i}", 100 + 10 * i, None)
        ex.register()
        ex.recv_loop()

    S.spawn("controller", controller).start()
    for i in range(hosts):
        S.spawn(f"executor{i}", exec_main, (i,)).start()
    t0 = _time.time()
    end = S.run()
    dt = _time.time() - t0
    print("end:", end, "steps", S.steps, "zmq msgs", FakeZmq.nsent, f"wall {dt*1000:.0f} ms", "virtual s", (S.now_ns - 1_000_000_000_000) / 1e9)
    print("outputs:", result.get("outputs"))
    for p in S.procs:
        if p.exc is not None or not p.dead:
            print("  proc", p.name, "dead" if p.dead else "ALIVE", p.exitcode, repr(p.exc))


if __name__ == "__main__":
    main(int(sys.argv[1]), int(sys.argv[2]))
