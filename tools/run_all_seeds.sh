#!/bin/bash
# Regression over every kept seeded change: apply it to the repository, run the quick tier of the checks recorded in its
# meta.json, expect exit 1 with a VIOLATION line from at least one of them, revert. Prints one line per seed.
# Runs in place on /repo, or -- under `vp run --with-repo` -- on the repository snapshot in $VP_RUN_REPO with the
# checks pointed at it (VF_REPO_SRC), so that work in /repo and /verif can go on meanwhile.
HERE="$(cd "$(dirname "$0")/.." && pwd)"
cd "$HERE"
REPO=${VP_RUN_REPO:-/repo}
if [ "$REPO" != "/repo" ]; then export VF_REPO_SRC="$REPO/src"; fi
case "$REPO/src" in */repo/src) ;; *) echo "repository path must end in /repo"; exit 2;; esac
fail=0
for d in seeded/*/; do
  id=$(basename $d)
  # SEEDS_FILTER: extended regular expression on the seed id (default: all)
  if [ -n "$SEEDS_FILTER" ] && ! echo "$id" | grep -Eq "$SEEDS_FILTER"; then continue; fi
  checks=$(python3 -c "import json;print(' '.join(json.load(open('$d/meta.json'))['detected_by']))")
  git -C $REPO apply $HERE/$d/patch.diff || { echo "$id: PATCH DOES NOT APPLY"; fail=1; continue; }
  hit=""
  for c in $checks; do
    timeout 3000 ./check $c quick > $HERE/.seedreg.out 2>&1; rc=$?
    if [ $rc -eq 1 ] && grep -q '^VIOLATION' $HERE/.seedreg.out; then hit="$hit $c"; fi
    if [ $rc -eq 2 ]; then hit="$hit $c(harness-error)"; fi
  done
  git -C $REPO checkout -- .
  git -C $HERE clean -fdq replays
  if [ -z "$hit" ]; then echo "$id: MISSED (ran: $checks)"; fail=1; else echo "$id: detected by$hit"; fi
done
rm -f $HERE/.seedreg.out
exit $fail
