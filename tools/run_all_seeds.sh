#!/bin/bash
# Regression over every kept seeded change: apply it to /repo, run the quick tier of the checks recorded in its
# meta.json, expect exit 1 with a VIOLATION line from at least one of them, revert. Prints one line per seed.
cd /verif
fail=0
for d in seeded/*/; do
  id=$(basename $d)
  checks=$(python3 -c "import json;print(' '.join(json.load(open('$d/meta.json'))['detected_by']))")
  git -C /repo apply /verif/$d/patch.diff || { echo "$id: PATCH DOES NOT APPLY"; fail=1; continue; }
  hit=""
  for c in $checks; do
    timeout 3000 ./check $c quick > /tmp/seedreg.out 2>&1; rc=$?
    if [ $rc -eq 1 ] && grep -q '^VIOLATION' /tmp/seedreg.out; then hit="$hit $c"; fi
    if [ $rc -eq 2 ]; then hit="$hit $c(harness-error)"; fi
  done
  git -C /repo checkout -- .
  git -C /verif clean -fdq replays
  if [ -z "$hit" ]; then echo "$id: MISSED (ran: $checks)"; fail=1; else echo "$id: detected by$hit"; fi
done
rm -f /tmp/seedreg.out
exit $fail
