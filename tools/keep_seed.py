#!/usr/bin/env python3
"""keep_seed.py <worktree> <mutant> <seed id> <property> <detected: yes|no|partly> <checks that catch it, comma separated> [note]"""
import json, os, shutil, sys
wt, m, sid, prop, detected, checks = sys.argv[1:7]
note = sys.argv[7] if len(sys.argv) > 7 else ""
src = os.path.join(wt, "_out", m)
dst = os.path.join("/verif/seeded", sid)
os.makedirs(dst, exist_ok=True)
shutil.copy(os.path.join(src, "patch.diff"), dst)
shutil.copy(os.path.join(src, "demo.py"), dst)
readme = open(os.path.join(src, "README.txt")).read() if os.path.exists(os.path.join(src, "README.txt")) else ""
# demos refer to the scratch worktree: make them point at /repo/src by default, overridable
demo = open(os.path.join(dst, "demo.py")).read().replace(wt + "/src", os.environ.get("SEED_SRC", "/repo/src"))
open(os.path.join(dst, "demo.py"), "w").write(demo)
meta = {
    "id": sid, "breaks_property": prop, "origin": "independent sub-agent given only the property text and a scratch worktree",
    "needs_to_manifest": readme[:3000],
    "confirmed": "demo exits 0 on the clean scratch worktree and non-zero with the patch; baseline 133 tests pass with the patch (tools/seedtest.sh)",
    "ran": f"git -C /repo apply seeded/{sid}/patch.diff; ./check <id> quick for {checks}; git -C /repo checkout -- .",
    "detected": detected, "detected_by": [c for c in checks.split(",") if c], "note": note,
}
json.dump(meta, open(os.path.join(dst, "meta.json"), "w"), indent=1)
print("kept", dst)
