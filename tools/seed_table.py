#!/usr/bin/env python3
"""prints the markdown table of seeded changes from seeded/*/meta.json"""
import glob, json, os
rows = []
for f in sorted(glob.glob("/verif/seeded/*/meta.json")):
    m = json.load(open(f))
    first = m["needs_to_manifest"].strip().splitlines()
    rows.append(f"| `{m['id']}` | {m['breaks_property']} | {m['detected']} | {', '.join(m['detected_by'])} | {m['note']} |")
print("| seeded change (`/verif/seeded/<id>/`) | breaks | detected | by check(s) | note |")
print("|---|---|---|---|---|")
print("\n".join(rows))
