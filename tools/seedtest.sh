#!/bin/bash
# usage: seedtest.sh <worktree> <mutant dir name> <check id> [<check id> ...]
# 1. confirms the sub-agent's claims in its scratch worktree (demo passes clean, fails mutated, 133 tests pass mutated)
# 2. applies the patch to the repository, runs the given checks (quick), reverts.
# The repository is /repo, or the scratch copy named by SEED_REPO (a path ending in /repo), at which the checks are
# then pointed through VF_REPO_SRC -- so that /repo stays untouched while long runs use it.
WT=$1; M=$2; shift 2
D=$WT/_out/$M
REPO=${SEED_REPO:-/repo}
if [ "$REPO" != "/repo" ]; then export VF_REPO_SRC="$REPO/src"; fi
cd $WT || exit 2
git checkout -q -- src
/venv/bin/python $D/demo.py >/dev/null 2>&1; echo "demo clean exit=$?"
git apply $D/patch.diff || { echo "patch does not apply in worktree"; exit 2; }
/venv/bin/python $D/demo.py >/dev/null 2>&1; echo "demo mutated exit=$?"
/venv/bin/python -m pytest -q -p no:cacheprovider --timeout=900 --continue-on-collection-errors 2>&1 | tail -1
git checkout -q -- src
cd /verif
git -C $REPO apply $D/patch.diff || { echo "patch does not apply to $REPO"; exit 2; }
for c in "$@"; do
  ./check $c quick > /tmp/seed_$c.out 2>&1; echo "check $c exit=$? $(grep -c '^VIOLATION' /tmp/seed_$c.out) violations"; grep -A1 "signature=" /tmp/seed_$c.out | cut -c1-260 | head -8
done
git -C $REPO checkout -- .
git -C /verif clean -fdq replays   # NOTE: removes untracked replay files: commit wanted ones first
