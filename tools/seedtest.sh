#!/bin/bash
# usage: seedtest.sh <worktree> <mutant dir name> <check id> [<check id> ...]
# 1. confirms the sub-agent's claims in its scratch worktree (demo passes clean, fails mutated, 133 tests pass mutated)
# 2. applies the patch to /repo, runs the given checks (quick), reverts /repo.
WT=$1; M=$2; shift 2
D=$WT/_out/$M
cd $WT || exit 2
git checkout -q -- src
/venv/bin/python $D/demo.py >/dev/null 2>&1; echo "demo clean exit=$?"
git apply $D/patch.diff || { echo "patch does not apply in worktree"; exit 2; }
/venv/bin/python $D/demo.py >/dev/null 2>&1; echo "demo mutated exit=$?"
/venv/bin/python -m pytest -q -p no:cacheprovider --timeout=900 --continue-on-collection-errors 2>&1 | tail -1
git checkout -q -- src
cd /verif
git -C /repo apply $D/patch.diff || { echo "patch does not apply to /repo"; exit 2; }
for c in "$@"; do
  ./check $c quick > /tmp/seed_$c.out 2>&1; echo "check $c exit=$? $(grep -c '^VIOLATION' /tmp/seed_$c.out) violations"; grep -A1 "signature=" /tmp/seed_$c.out | cut -c1-260 | head -8
done
git -C /repo checkout -- .
git -C /verif clean -fdq replays   # NOTE: removes untracked replay files: commit wanted ones first
